# Builds the framework offline from files on disk.
export GOFLAGS=-mod=mod
export GOPROXY=off
export GOSUMDB=off
export GOTOOLCHAIN=local

setup:
	mkdir -p bin evidence out
	cp /repo/go.sum harness/go.sum
	cd harness && go build -tags verif -o ../bin/vh ./cmd/vh && go build -race -tags verif -o ../bin/vh-race ./cmd/vh && go build -tags verif -o ../bin/c20 ./cmd/c20 && go build -tags "verif osusergo" -o ../bin/c19 ./cmd/c19
	@echo setup done

// Package proj projects the SQLite ledger of pegnetd onto the abstract state of the
// specification. It reads the database through its own connection (committed state only).
package proj

import (
	"crypto/sha256"
	"database/sql"
	"encoding/hex"
	"encoding/json"
	"fmt"
	"sort"
	"strings"

	"github.com/Factom-Asset-Tokens/factom"
	_ "github.com/mattn/go-sqlite3"
	"github.com/pegnet/pegnetd/fat/fat2"

	"verif/harness/gen"
)

// DB is a read-only handle.
type DB struct {
	db *sql.DB
}

// Open opens the database file read-only.
func Open(path string) (*DB, error) {
	db, err := sql.Open("sqlite3", "file:"+path+"?_busy_timeout=5000&_query_only=1")
	if err != nil {
		return nil, err
	}
	db.SetMaxOpenConns(1)
	return &DB{db: db}, nil
}

// Close closes the handle.
func (d *DB) Close() { d.db.Close() }

// Tickers lists all asset names in ticker order.
func Tickers() []string {
	var out []string
	for t := fat2.PTickerInvalid + 1; t < fat2.PTickerMax; t++ {
		out = append(out, t.String())
	}
	return out
}

func col(t string) string { return strings.ToLower(t) + "_balance" }

// Synced returns pn_metadata synced height (-1 if absent).
func (d *DB) Synced() (int64, error) {
	var data []byte
	err := d.db.QueryRow(`SELECT value FROM pn_metadata WHERE name = 'synced'`).Scan(&data)
	if err == sql.ErrNoRows {
		return -1, nil
	}
	if err != nil {
		return -1, err
	}
	var bs struct{ Synced int64 }
	if err := json.Unmarshal(data, &bs); err != nil {
		return -1, err
	}
	return bs.Synced, nil
}

// Balances: address(raw) -> ticker -> amount for a table of the pn_addresses shape (all rows).
func (d *DB) Balances(table string) (map[factom.FAAddress]map[string]uint64, error) {
	ts := Tickers()
	cols := make([]string, len(ts))
	for i, t := range ts {
		cols[i] = col(t)
	}
	rows, err := d.db.Query(fmt.Sprintf(`SELECT address, %s FROM %s`, strings.Join(cols, ","), table))
	if err != nil {
		return nil, err
	}
	defer rows.Close()
	out := map[factom.FAAddress]map[string]uint64{}
	for rows.Next() {
		var adr []byte
		vals := make([]interface{}, len(ts))
		ptrs := make([]interface{}, len(ts)+1)
		ptrs[0] = &adr
		for i := range vals {
			ptrs[i+1] = &vals[i]
		}
		if err := rows.Scan(ptrs...); err != nil {
			return nil, err
		}
		var fa factom.FAAddress
		copy(fa[:], adr)
		m := map[string]uint64{}
		for i, t := range ts {
			switch v := vals[i].(type) {
			case int64:
				m[t] = uint64(v)
			case float64:
				// a sum that left the INTEGER range: SQLite stores a REAL. Report it as what it is (an
				// absurd balance), not as an observation failure.
				if v >= 0 && v < 18446744073709551615.0 {
					m[t] = uint64(v)
				} else {
					m[t] = ^uint64(0)
				}
			case nil:
				m[t] = 0
			default:
				return nil, fmt.Errorf("balance column %s of %s has unexpected type %T", col(t), table, v)
			}
		}
		out[fa] = m
	}
	return out, rows.Err()
}

// HistTx is one pn_history_transaction row.
type HistTx struct {
	Idx       int      `json:"idx"`
	Action    int      `json:"action"`
	From      string   `json:"from"`
	FromAsset string   `json:"fromAsset"`
	FromAmt   []int    `json:"fromAmt"`
	ToAsset   string   `json:"toAsset"`
	ToNeg     bool     `json:"toNeg"`
	ToAmt     []int    `json:"toAmt"`
	Outs      []HistOut `json:"outs"`
	Lookup    []string `json:"lookup"`
}

// HistOut is one recorded transfer output.
type HistOut struct {
	A   string `json:"a"`
	Amt []int  `json:"amt"`
}

// HistBatch is one pn_history_txbatch row with its transactions.
type HistBatch struct {
	Hash   string   `json:"hash"`
	Height int64    `json:"height"`
	Order  int64    `json:"order"`
	Exec   int64    `json:"exec"`
	Time   int64    `json:"-"`
	Txs    []HistTx `json:"txs"`
	Rows   int      `json:"rows"` // number of txbatch rows with this hash (should be 1)
	HID    int64    `json:"-"`
}

// History returns all history batches keyed by entry hash hex.
func (d *DB) History(kr *gen.Keyring) (map[string]*HistBatch, error) {
	out := map[string]*HistBatch{}
	rows, err := d.db.Query(`SELECT history_id, entry_hash, height, blockorder, timestamp, executed FROM pn_history_txbatch ORDER BY history_id`)
	if err != nil {
		return nil, err
	}
	for rows.Next() {
		var h []byte
		b := &HistBatch{Txs: []HistTx{}}
		if err := rows.Scan(&b.HID, &h, &b.Height, &b.Order, &b.Time, &b.Exec); err != nil {
			rows.Close()
			return nil, err
		}
		b.Hash = hex.EncodeToString(h)
		if prev, ok := out[b.Hash]; ok {
			prev.Rows++
			continue
		}
		b.Rows = 1
		out[b.Hash] = b
	}
	rows.Close()
	rows, err = d.db.Query(`SELECT entry_hash, tx_index, action_type, from_address, from_asset, from_amount, to_asset, to_amount, outputs FROM pn_history_transaction ORDER BY entry_hash, tx_index`)
	if err != nil {
		return nil, err
	}
	for rows.Next() {
		var h, from, outs []byte
		var t HistTx
		var fromAmt, toAmt int64
		var fromAsset, toAsset sql.NullString
		if err := rows.Scan(&h, &t.Idx, &t.Action, &from, &fromAsset, &fromAmt, &toAsset, &toAmt, &outs); err != nil {
			rows.Close()
			return nil, err
		}
		t.FromAsset, t.ToAsset = fromAsset.String, toAsset.String
		var fa factom.FAAddress
		copy(fa[:], from)
		t.From = kr.Name(fa)
		t.FromAmt = gen.Limbs(uint64(fromAmt))
		if toAmt < 0 {
			t.ToNeg = true
			t.ToAmt = gen.Limbs(uint64(-toAmt))
		} else {
			t.ToAmt = gen.Limbs(uint64(toAmt))
		}
		t.Outs = []HistOut{}
		t.Lookup = []string{}
		if len(outs) > 0 {
			var oo []struct {
				Address factom.FAAddress `json:"address"`
				Amount  int64            `json:"amount"`
			}
			if err := json.Unmarshal(outs, &oo); err == nil {
				for _, o := range oo {
					t.Outs = append(t.Outs, HistOut{A: kr.Name(o.Address), Amt: gen.Limbs(uint64(o.Amount))})
				}
			}
		}
		b := out[hex.EncodeToString(h)]
		if b == nil {
			b = &HistBatch{Hash: hex.EncodeToString(h), Height: -1, Exec: 0, Rows: 0, Txs: []HistTx{}}
			out[b.Hash] = b
		}
		b.Txs = append(b.Txs, t)
	}
	rows.Close()
	rows, err = d.db.Query(`SELECT entry_hash, tx_index, address FROM pn_history_lookup ORDER BY entry_hash, tx_index, address`)
	if err != nil {
		return nil, err
	}
	for rows.Next() {
		var h, a []byte
		var idx int
		if err := rows.Scan(&h, &idx, &a); err != nil {
			rows.Close()
			return nil, err
		}
		var fa factom.FAAddress
		copy(fa[:], a)
		b := out[hex.EncodeToString(h)]
		if b == nil {
			continue
		}
		for i := range b.Txs {
			if b.Txs[i].Idx == idx {
				b.Txs[i].Lookup = append(b.Txs[i].Lookup, kr.Name(fa))
			}
		}
	}
	rows.Close()
	for _, b := range out {
		for i := range b.Txs {
			sort.Strings(b.Txs[i].Lookup)
		}
	}
	return out, nil
}

// Held is a pn_transaction_batch_holding row.
type Held struct {
	Hash string `json:"hash"`
	H    int64  `json:"h"`
}

// Holding returns the holding rows in insertion (id) order.
func (d *DB) Holding() ([]Held, error) {
	rows, err := d.db.Query(`SELECT entry_hash, height FROM pn_transaction_batch_holding ORDER BY id`)
	if err != nil {
		return nil, err
	}
	defer rows.Close()
	out := []Held{}
	for rows.Next() {
		var h []byte
		var x Held
		if err := rows.Scan(&h, &x.H); err != nil {
			return nil, err
		}
		x.Hash = hex.EncodeToString(h)
		out = append(out, x)
	}
	return out, rows.Err()
}

// Rel is a pn_address_transactions row.
type Rel struct {
	Hash string `json:"hash"`
	A    string `json:"a"`
	Idx  int    `json:"idx"`
	To   bool   `json:"to"`
	Conv bool   `json:"conv"`
}

// Relations returns all relation rows, sorted.
func (d *DB) Relations(kr *gen.Keyring) ([]Rel, error) {
	rows, err := d.db.Query(`SELECT entry_hash, address, tx_index, "to", conversion FROM pn_address_transactions ORDER BY entry_hash, address`)
	if err != nil {
		return nil, err
	}
	defer rows.Close()
	out := []Rel{}
	for rows.Next() {
		var h, a []byte
		var r Rel
		if err := rows.Scan(&h, &a, &r.Idx, &r.To, &r.Conv); err != nil {
			return nil, err
		}
		var fa factom.FAAddress
		copy(fa[:], a)
		r.Hash = hex.EncodeToString(h)
		r.A = kr.Name(fa)
		out = append(out, r)
	}
	return out, rows.Err()
}

// Rates returns height -> token -> value for all of pn_rate.
func (d *DB) Rates() (map[int64]map[string]uint64, error) {
	rows, err := d.db.Query(`SELECT height, token, value FROM pn_rate`)
	if err != nil {
		return nil, err
	}
	defer rows.Close()
	out := map[int64]map[string]uint64{}
	for rows.Next() {
		var h, v int64
		var t string
		if err := rows.Scan(&h, &t, &v); err != nil {
			return nil, err
		}
		if out[h] == nil {
			out[h] = map[string]uint64{}
		}
		out[h][t] = uint64(v)
	}
	return out, rows.Err()
}

// Bank is a pn_bank row.
type Bank struct {
	H    int64 `json:"h"`
	Amt  int64 `json:"-"`
	Used int64 `json:"-"`
	Req  int64 `json:"-"`
}

// Banks returns all bank rows by height.
func (d *DB) Banks() (map[int64]Bank, error) {
	rows, err := d.db.Query(`SELECT height, bank_amount, bank_used, total_requested FROM pn_bank`)
	if err != nil {
		return nil, err
	}
	defer rows.Close()
	out := map[int64]Bank{}
	for rows.Next() {
		var b Bank
		if err := rows.Scan(&b.H, &b.Amt, &b.Used, &b.Req); err != nil {
			return nil, err
		}
		out[b.H] = b
	}
	return out, rows.Err()
}

// Winner is a pn_winners row.
type Winner struct {
	Pos    int    `json:"pos"`
	A      string `json:"a"`
	Pay    []int  `json:"pay"`
	EH     string `json:"eh"`
}

// Winners returns the pn_winners rows of a height ordered by position.
func (d *DB) Winners(h int64, kr *gen.Keyring) ([]Winner, error) {
	rows, err := d.db.Query(`SELECT position, address, payout, entryhash FROM pn_winners WHERE height = ? ORDER BY position`, h)
	if err != nil {
		return nil, err
	}
	defer rows.Close()
	out := []Winner{}
	for rows.Next() {
		var w Winner
		var a string
		var pay int64
		var eh []byte
		if err := rows.Scan(&w.Pos, &a, &pay, &eh); err != nil {
			return nil, err
		}
		w.A = "?"
		if fa, err := factom.NewFAAddress(a); err == nil {
			w.A = kr.Name(fa)
		}
		w.Pay = gen.Limbs(uint64(pay))
		if len(eh) >= 8 {
			w.EH = hex.EncodeToString(eh[:8])
		}
		out = append(out, w)
	}
	return out, rows.Err()
}

// Grade is a pn_grade row.
type Grade struct {
	H       int64    `json:"h"`
	Version int      `json:"version"`
	Short   []string `json:"-"`
	Count   int      `json:"count"`
}

// Grades returns all pn_grade rows by height.
func (d *DB) Grades() (map[int64]Grade, error) {
	rows, err := d.db.Query(`SELECT height, shorthashes, version, count FROM pn_grade`)
	if err != nil {
		return nil, err
	}
	defer rows.Close()
	out := map[int64]Grade{}
	for rows.Next() {
		var g Grade
		var sh []byte
		if err := rows.Scan(&g.H, &sh, &g.Version, &g.Count); err != nil {
			return nil, err
		}
		json.Unmarshal(sh, &g.Short)
		out[g.H] = g
	}
	return out, rows.Err()
}

// SyncVersions returns the pn_sync_version rows (height -> version).
func (d *DB) SyncVersions() (map[int64]int64, error) {
	rows, err := d.db.Query(`SELECT height, version FROM pn_sync_version`)
	if err != nil {
		return nil, err
	}
	defer rows.Close()
	out := map[int64]int64{}
	for rows.Next() {
		var h, v int64
		if err := rows.Scan(&h, &v); err != nil {
			return nil, err
		}
		out[h] = v
	}
	return out, rows.Err()
}

// CanonicalDump returns a canonical text dump of every ledger table (row ids and
// pn_sync_version.unix_timestamp excluded), used for replica / reference comparison.
func (d *DB) CanonicalDump() (string, error) {
	var sb strings.Builder
	type q struct{ name, sql string }
	ts := Tickers()
	cols := make([]string, len(ts))
	for i, t := range ts {
		cols[i] = col(t)
	}
	bal := strings.Join(cols, ",")
	qs := []q{
		{"pn_addresses", `SELECT hex(address),` + bal + ` FROM pn_addresses ORDER BY address`},
		{"snapshot_current", `SELECT hex(address),` + bal + ` FROM snapshot_current ORDER BY address`},
		{"snapshot_past", `SELECT hex(address),` + bal + ` FROM snapshot_past ORDER BY address`},
		{"pn_rate", `SELECT height, token, value FROM pn_rate ORDER BY height, token`},
		{"pn_grade", `SELECT height, hex(keymr), hex(prevkeymr), eb_seq, shorthashes, version, cutoff, count FROM pn_grade ORDER BY height`},
		{"pn_winners", `SELECT height, position, hex(entryhash), hex(oprhash), payout, grade, hex(nonce), hex(difficulty), minerid, address FROM pn_winners ORDER BY height, position`},
		{"pn_bank", `SELECT height, bank_amount, bank_used, total_requested FROM pn_bank ORDER BY height`},
		{"pn_holding", `SELECT hex(entry_hash), hex(entry_data), height, hex(eblock_keymr), unix_timestamp FROM pn_transaction_batch_holding ORDER BY id`},
		{"pn_holding_core", `SELECT hex(entry_hash), height FROM pn_transaction_batch_holding ORDER BY id`},
		{"pn_history_txbatch_core", `SELECT hex(entry_hash), height, executed FROM pn_history_txbatch ORDER BY height, entry_hash`},
		{"pn_address_transactions", `SELECT hex(entry_hash), hex(address), tx_index, "to", conversion FROM pn_address_transactions ORDER BY entry_hash, address`},
		{"pn_history_txbatch", `SELECT hex(entry_hash), height, blockorder, timestamp, executed FROM pn_history_txbatch ORDER BY history_id`},
		{"pn_history_transaction", `SELECT hex(entry_hash), tx_index, action_type, hex(from_address), from_asset, from_amount, to_asset, to_amount, outputs FROM pn_history_transaction ORDER BY entry_hash, tx_index`},
		{"pn_history_lookup", `SELECT hex(entry_hash), tx_index, hex(address) FROM pn_history_lookup ORDER BY entry_hash, tx_index, address`},
		{"pn_metadata", `SELECT name, value FROM pn_metadata ORDER BY name`},
		{"pn_sync_version", `SELECT height, version FROM pn_sync_version WHERE version >= 0 ORDER BY height`}, // legacy back-fill markers (version -1, written at start-up by CheckHardForks) are start-up bookkeeping, see C19
	}
	for _, x := range qs {
		sb.WriteString("## " + x.name + "\n")
		rows, err := d.db.Query(x.sql)
		if err != nil {
			return "", fmt.Errorf("%s: %v", x.name, err)
		}
		cn, _ := rows.Columns()
		for rows.Next() {
			vals := make([]interface{}, len(cn))
			ptrs := make([]interface{}, len(cn))
			for i := range vals {
				ptrs[i] = &vals[i]
			}
			if err := rows.Scan(ptrs...); err != nil {
				rows.Close()
				return "", err
			}
			for i, v := range vals {
				if i > 0 {
					sb.WriteString("|")
				}
				switch t := v.(type) {
				case []byte:
					sb.WriteString(string(t))
				default:
					sb.WriteString(fmt.Sprint(t))
				}
			}
			sb.WriteString("\n")
		}
		rows.Close()
	}
	return sb.String(), nil
}

// Digest is a short hash of a string.
func Digest(s string) string {
	h := sha256.Sum256([]byte(s))
	return hex.EncodeToString(h[:8])
}

// TableDigests returns a digest per table of the canonical dump.
func TableDigests(dump string) map[string]string {
	out := map[string]string{}
	parts := strings.Split(dump, "## ")
	for _, p := range parts {
		if p == "" {
			continue
		}
		nl := strings.Index(p, "\n")
		out[p[:nl]] = Digest(p[nl+1:])
	}
	return out
}

// Package run drives the real pegnetd node (node.NewPegnetd + DBlockSync) against the
// fake factomd, one block at a time, and records what the database shows after each block.
package run

import (
	"context"
	"database/sql"
	"fmt"
	"io/ioutil"
	"os"
	"path/filepath"
	"sort"
	"strings"
	"sync/atomic"
	"time"

	"github.com/Factom-Asset-Tokens/factom"
	_ "github.com/mattn/go-sqlite3"
	"github.com/pegnet/pegnet/modules/grader"
	"github.com/pegnet/pegnetd/config"
	"github.com/pegnet/pegnetd/fat/fat2"
	"github.com/pegnet/pegnetd/node"
	log "github.com/sirupsen/logrus"
	"github.com/spf13/viper"

	"verif/harness/ff"
	"verif/harness/gen"
	"verif/harness/proj"
)

// InitEnv prepares the process environment (small LXR table, private HOME). Call first.
func InitEnv(scratch string) {
	if os.Getenv("LXRBITSIZE") == "" {
		os.Setenv("LXRBITSIZE", "8")
	}
	os.Setenv("HOME", scratch)
	log.SetOutput(ioutil.Discard)
	if os.Getenv("VERIF_LOG") != "" {
		log.SetOutput(os.Stderr)
		log.SetLevel(log.DebugLevel)
	}
	grader.InitLX()
}

// Runner couples a chain, a fake factomd and a node.
type Runner struct {
	Chain  *gen.Chain
	Srv    *ff.Server
	DBBase string // path without the ".v4" suffix
	Retry  time.Duration
	Wal    bool
	NoHF   bool
	// LegacySchema: create pn_addresses as an older build would have ("pre-v4" | "pre-v5") before the first start
	LegacySchema string

	Node   *node.Pegnetd
	cancel context.CancelFunc
	done   chan struct{}
	alive  int32

	apiStop chan struct{}
	apiDone <-chan struct{}
	APIURL  string

	// observation state
	prevHist    map[string]string
	prevHoldN   int
	prevRel     map[string]bool
	prevSnap    string
	WedgeRepeat int
}

// New builds the fake factomd for the chain.
func New(c *gen.Chain, dbBase string) (*Runner, error) {
	r := &Runner{Chain: c, DBBase: dbBase, Retry: 5 * time.Millisecond, WedgeRepeat: 6}
	r.Srv = ff.New()
	for _, b := range c.Blocks {
		if err := r.Srv.Add(b); err != nil {
			return nil, err
		}
	}
	r.Srv.SetTip(config.PegnetActivation)
	if err := r.Srv.Start(); err != nil {
		return nil, err
	}
	r.prevHist = map[string]string{}
	r.prevRel = map[string]bool{}
	return r, nil
}

// createLegacyAddresses creates the balance table as a build that predates the v4 ("pre-v4": 30 assets) or the v5 ("pre-v5": 42
// assets) asset lists would have created it, so that the daemon's own migrations bring it up to date at start-up.
// CreateLegacyAddresses is exported for the other harness commands.
func CreateLegacyAddresses(file, era string) error { return createLegacyAddresses(file, era) }

func createLegacyAddresses(file, era string) error {
	n := map[string]int{"pre-v4": 30, "pre-v5": 42}[era]
	if n == 0 {
		return fmt.Errorf("unknown legacy schema %q", era)
	}
	var cols []string
	i := 0
	for t := fat2.PTickerInvalid + 1; t < fat2.PTickerMax && i < n; t++ {
		c := strings.ToLower(t.String()) + "_balance"
		cols = append(cols, fmt.Sprintf("\"%s\" INTEGER NOT NULL DEFAULT 0 CONSTRAINT \"insufficient balance\" CHECK (\"%s\" >= 0)", c, c))
		i++
	}
	db, err := sql.Open("sqlite3", file)
	if err != nil {
		return err
	}
	defer db.Close()
	_, err = db.Exec("CREATE TABLE \"pn_addresses\" (\"id\" INTEGER PRIMARY KEY, \"address\" BLOB NOT NULL UNIQUE, " + strings.Join(cols, ", ") + ")")
	return err
}

// DBFile is the SQLite file pegnetd uses.
func (r *Runner) DBFile() string { return r.DBBase + ".v4" }

// Conf builds the viper configuration.
func (r *Runner) Conf() *viper.Viper {
	v := viper.New()
	v.Set(config.Network, "verif")
	v.Set(config.Server, r.Srv.URL)
	v.Set(config.Wallet, "http://127.0.0.1:1/v2")
	v.Set(config.SqliteDBPath, r.DBBase)
	v.Set(config.DBlockSyncRetryPeriod, r.Retry)
	v.Set(config.SQLDBWalMode, r.Wal)
	v.Set(config.DisableHardForkCheck, r.NoHF)
	v.Set(config.APIListen, "0")
	return v
}

// StartNode constructs the node and starts the sync loop.
func (r *Runner) StartNode() error {
	os.MkdirAll(filepath.Dir(r.DBBase), 0777)
	if r.LegacySchema != "" {
		if _, err := os.Stat(r.DBFile()); os.IsNotExist(err) {
			if err := createLegacyAddresses(r.DBFile(), r.LegacySchema); err != nil {
				return err
			}
		}
	}
	ctx, cancel := context.WithCancel(context.Background())
	n, err := node.NewPegnetd(ctx, r.Conf())
	if err != nil {
		cancel()
		return err
	}
	r.Node = n
	r.cancel = cancel
	r.done = make(chan struct{})
	atomic.StoreInt32(&r.alive, 1)
	go func() {
		n.DBlockSync(ctx)
		atomic.StoreInt32(&r.alive, 0)
		close(r.done)
	}()
	return nil
}

// StopNode stops the sync loop cleanly (the node must be idle at the tip) and closes the DB.
func (r *Runner) StopNode() error {
	if r.Node == nil {
		return nil
	}
	r.cancel()
	select {
	case <-r.done:
	case <-time.After(20 * time.Second):
		return fmt.Errorf("sync loop did not stop")
	}
	err := r.Node.Pegnet.DB.Close()
	r.Node = nil
	return err
}

// DBSynced reads the committed synced height.
func (r *Runner) DBSynced() int64 {
	// a read can time out on a busy database (heavily loaded machine): that is no observation, try again
	for attempt := 0; attempt < 6; attempt++ {
		if s, ok := r.dbSyncedOnce(); ok {
			return s
		}
		time.Sleep(50 * time.Millisecond)
	}
	return -2
}

func (r *Runner) dbSyncedOnce() (int64, bool) {
	d, err := proj.Open(r.DBFile())
	if err != nil {
		return -2, false
	}
	defer d.Close()
	s, err := d.Synced()
	if err != nil {
		if os.Getenv("VERIF_LOG") != "" {
			fmt.Fprintln(os.Stderr, "DBSynced:", err)
		}
		return -2, false
	}
	return s, true
}

// StepResult tells how an Advance ended.
type StepResult struct {
	OK     bool
	Wedge  bool // the same height was requested WedgeRepeat times without a commit
	Dead   bool // the sync loop returned
	Reason string
}

// Advance moves the factomd tip to h and waits until the node has committed h.
func (r *Runner) Advance(h uint32, timeout time.Duration) StepResult {
	r.Srv.SetKeepLog(true)
	r.Srv.SetTip(h)
	deadline := time.Now().Add(timeout)
	startSeq := r.Srv.Seq()
	for {
		s := r.DBSynced()
		if s >= int64(h) {
			return StepResult{OK: true}
		}
		if atomic.LoadInt32(&r.alive) == 0 {
			return StepResult{Dead: true, Reason: "sync loop exited"}
		}
		// wedge detection: count dblock-by-height requests for s+1 since startSeq
		cnt := 0
		for _, q := range r.Srv.Requests() {
			if q.Seq > startSeq && q.Method == "dblock-by-height" && q.Height == s+1 {
				cnt++
			}
		}
		// NullifyBurnAddress also fetches the dblock, so a healthy block may ask twice
		if cnt >= r.WedgeRepeat+1 {
			return StepResult{Wedge: true, Reason: fmt.Sprintf("height %d requested %d times without commit", s+1, cnt)}
		}
		if time.Now().After(deadline) {
			return StepResult{Reason: fmt.Sprintf("timeout waiting for height %d (db at %d)", h, s)}
		}
		time.Sleep(300 * time.Microsecond)
	}
}

// ---------------------------------------------------------------- observation

// Obs is the abstract state observed after a block (see proj).
type Obs struct {
	Synced      int64                       `json:"synced"`
	Bal         map[string]map[string][]int `json:"bal"`
	Outside     []string                    `json:"outside"`
	Supply      map[string][]int            `json:"supply"`
	Rates       map[string][]int            `json:"rates"`
	Rated       bool                        `json:"rated"`
	RatesN      int                         `json:"ratesN"`
	RateDigests map[string]string           `json:"rateDigests"`
	Hist        []*proj.HistBatch           `json:"hist"`
	Holding     []proj.Held                 `json:"holding"`
	HoldingN    int                         `json:"holdingN"`
	Rel         []proj.Rel                  `json:"rel"`
	Bank        map[string]interface{}      `json:"bank"`
	BankRows    int                         `json:"bankRows"`
	Winners     []proj.Winner               `json:"winners"`
	GradeRow    bool                        `json:"gradeRow"`
	GradeVer    int                         `json:"gradeVer"`
	SnapChanged bool                        `json:"snapChanged"`
	SnapCur     map[string]map[string][]int `json:"snapCur"`
	SnapPast    map[string]map[string][]int `json:"snapPast"`
	SyncVerRows int                         `json:"syncVerRows"`
	SyncVerAt   int64                       `json:"syncVerAt"`
	Dump        map[string]string           `json:"dump"`
	MintOther   map[string][]int            `json:"mintOther"` // MINT's non-zero balances in assets outside the universe
}

func dense(kr *gen.Keyring, assets []string, names []string, b map[factom.FAAddress]map[string]uint64, rowsOnly bool) (map[string]map[string][]int, []string) {
	out := map[string]map[string][]int{}
	var outside []string
	inU := map[string]bool{}
	for _, a := range assets {
		inU[a] = true
	}
	seen := map[string]bool{}
	for fa, m := range b {
		n := kr.Name(fa)
		if strings.HasPrefix(n, "?") {
			for t, v := range m {
				if v != 0 {
					outside = append(outside, fmt.Sprintf("%s:%s=%d", n, t, v))
				}
			}
			continue
		}
		seen[n] = true
		row := map[string][]int{}
		for _, a := range assets {
			row[a] = gen.Limbs(m[a])
		}
		for t, v := range m {
			if !inU[t] && v != 0 && n != "MINT" {
				outside = append(outside, fmt.Sprintf("%s:%s=%d", n, t, v))
			}
		}
		out[n] = row
	}
	if !rowsOnly {
		for _, n := range names {
			if !seen[n] {
				row := map[string][]int{}
				for _, a := range assets {
					row[a] = []int{}
				}
				out[n] = row
			}
		}
	}
	sort.Strings(outside)
	if outside == nil {
		outside = []string{}
	}
	return out, outside
}

// Observe projects the committed database state after height h.
func (r *Runner) Observe(h uint32) (*Obs, error) {
	d, err := proj.Open(r.DBFile())
	if err != nil {
		return nil, err
	}
	defer d.Close()
	kr := r.Chain.Keys
	assets := r.Chain.Scn.Assets
	o := &Obs{Bank: map[string]interface{}{"present": false}, Dump: map[string]string{},
		SnapCur: map[string]map[string][]int{}, SnapPast: map[string]map[string][]int{}}
	if o.Synced, err = d.Synced(); err != nil {
		return nil, err
	}
	bal, err := d.Balances("pn_addresses")
	if err != nil {
		return nil, err
	}
	names := kr.Names()
	o.Bal, o.Outside = dense(kr, assets, names, bal, false)
	o.MintOther = map[string][]int{}
	if mk, ok := kr.ByName["MINT"]; ok {
		inU := map[string]bool{}
		for _, a := range assets {
			inU[a] = true
		}
		for t, v := range bal[mk.FA] {
			if !inU[t] && v != 0 {
				o.MintOther[t] = gen.Limbs(v)
			}
		}
	}
	o.Supply = map[string][]int{}
	sums := map[string]uint64{}
	for _, m := range bal {
		for t, v := range m {
			sums[t] += v
		}
	}
	for _, a := range assets {
		o.Supply[a] = gen.Limbs(sums[a])
	}
	rates, err := d.Rates()
	if err != nil {
		return nil, err
	}
	o.RateDigests = map[string]string{}
	for rh, m := range rates {
		var keys []string
		for k := range m {
			keys = append(keys, k)
		}
		sort.Strings(keys)
		var sb strings.Builder
		for _, k := range keys {
			fmt.Fprintf(&sb, "%s=%d;", k, m[k])
		}
		o.RateDigests[fmt.Sprint(rh)] = proj.Digest(sb.String())
	}
	o.Rates = map[string][]int{}
	if m, ok := rates[int64(h)]; ok {
		o.Rated = true
		o.RatesN = len(m)
		for _, a := range assets {
			if v, ok := m[a]; ok {
				o.Rates[a] = gen.Limbs(v)
			}
		}
	}
	// history delta
	hist, err := d.History(kr)
	if err != nil {
		return nil, err
	}
	o.Hist = []*proj.HistBatch{}
	var hkeys []string
	for k := range hist {
		hkeys = append(hkeys, k)
	}
	sort.Slice(hkeys, func(i, j int) bool { return hist[hkeys[i]].HID < hist[hkeys[j]].HID })
	for _, k := range hkeys {
		b := hist[k]
		dg := proj.Digest(fmt.Sprintf("%+v", *b))
		if r.prevHist[k] != dg {
			o.Hist = append(o.Hist, b)
			r.prevHist[k] = dg
		}
	}
	hold, err := d.Holding()
	if err != nil {
		return nil, err
	}
	o.HoldingN = len(hold)
	o.Holding = []proj.Held{}
	if len(hold) >= r.prevHoldN {
		o.Holding = hold[r.prevHoldN:]
	}
	r.prevHoldN = len(hold)
	rel, err := d.Relations(kr)
	if err != nil {
		return nil, err
	}
	o.Rel = []proj.Rel{}
	for _, x := range rel {
		k := x.Hash + "|" + x.A
		if !r.prevRel[k] {
			r.prevRel[k] = true
			o.Rel = append(o.Rel, x)
		}
	}
	banks, err := d.Banks()
	if err != nil {
		return nil, err
	}
	o.BankRows = len(banks)
	if b, ok := banks[int64(h)]; ok {
		o.Bank = map[string]interface{}{"present": true, "h": b.H, "amt": gen.LimbsI64(b.Amt), "used": gen.LimbsI64(b.Used), "req": gen.LimbsI64(b.Req)}
	}
	if o.Winners, err = d.Winners(int64(h), kr); err != nil {
		return nil, err
	}
	grades, err := d.Grades()
	if err != nil {
		return nil, err
	}
	if g, ok := grades[int64(h)]; ok {
		o.GradeRow = true
		o.GradeVer = g.Version
	}
	sc, err := d.Balances("snapshot_current")
	if err != nil {
		return nil, err
	}
	sp, err := d.Balances("snapshot_past")
	if err != nil {
		return nil, err
	}
	cur, out1 := dense(kr, assets, names, sc, false)
	past, out2 := dense(kr, assets, names, sp, false)
	sd := proj.Digest(fmt.Sprint(cur, past, out1, out2))
	if sd != r.prevSnap {
		o.SnapChanged = true
		o.SnapCur, o.SnapPast = cur, past
		r.prevSnap = sd
	}
	sv, err := d.SyncVersions()
	if err != nil {
		return nil, err
	}
	o.SyncVerRows = len(sv)
	if v, ok := sv[int64(h)]; ok {
		o.SyncVerAt = v
	} else {
		o.SyncVerAt = -99
	}
	return o, nil
}

// Dump returns the canonical dump of the database.
func (r *Runner) Dump() (string, error) {
	d, err := proj.Open(r.DBFile())
	if err != nil {
		return "", err
	}
	defer d.Close()
	return d.CanonicalDump()
}

package run

import (
	"bytes"
	"context"
	"encoding/json"
	"fmt"
	"io/ioutil"
	"net"
	"net/http"
	"sort"
	"time"

	"github.com/Factom-Asset-Tokens/factom"
	"github.com/pegnet/pegnetd/config"
	"github.com/pegnet/pegnetd/srv"

	"verif/harness/gen"
)

// StartAPI starts the real API server (srv.APIServer) of the running node on a loopback port.
func (r *Runner) StartAPI() error {
	ln, err := net.Listen("tcp", "127.0.0.1:0")
	if err != nil {
		return err
	}
	addr := ln.Addr().String()
	ln.Close()
	conf := r.Conf()
	conf.Set(config.APIListen, addr)
	r.apiStop = make(chan struct{})
	s := srv.NewAPIServer(conf, r.Node)
	r.apiDone = s.Start(r.apiStop)
	r.APIURL = "http://" + addr + "/v1"
	for i := 0; i < 200; i++ {
		c, err := net.DialTimeout("tcp", addr, 50*time.Millisecond)
		if err == nil {
			c.Close()
			return nil
		}
		time.Sleep(5 * time.Millisecond)
	}
	return fmt.Errorf("api server did not start")
}

// StopAPI stops the API server.
func (r *Runner) StopAPI() {
	if r.apiStop != nil {
		// the server shuts down with a nil context (srv.go): a connection that is not idle at that moment makes
		// net/http dereference it. Hang up our side first so that the harness does not die of that.
		if t, ok := http.DefaultTransport.(*http.Transport); ok {
			t.CloseIdleConnections()
		}
		time.Sleep(30 * time.Millisecond)
		close(r.apiStop)
		<-r.apiDone
		r.apiStop = nil
	}
}

// Call performs one JSON-RPC request; result is decoded into out (may be nil). Returns the JSON-RPC error code (0 = ok).
func (r *Runner) Call(method string, params interface{}, out interface{}) (int, error) {
	return CallURL(r.APIURL, method, params, out)
}

// CallCancel starts a request and returns a function that abandons it (the client hangs up: the server's
// request context is cancelled) and a channel that is closed when the request has returned.
func (r *Runner) CallCancel(method string, params interface{}) (cancel func(), done chan struct{}) {
	body, _ := json.Marshal(map[string]interface{}{"jsonrpc": "2.0", "id": 1, "method": method, "params": params})
	ctx, cf := context.WithCancel(context.Background())
	done = make(chan struct{})
	tr := &http.Transport{DisableKeepAlives: true}
	go func() {
		defer close(done)
		req, err := http.NewRequestWithContext(ctx, "POST", r.APIURL, bytes.NewReader(body))
		if err != nil {
			return
		}
		req.Header.Set("Content-Type", "application/json")
		resp, err := (&http.Client{Transport: tr}).Do(req)
		if err == nil {
			ioutil.ReadAll(resp.Body)
			resp.Body.Close()
		}
	}()
	return func() { cf(); tr.CloseIdleConnections() }, done
}

// CallURL is Call for an arbitrary endpoint.
func CallURL(url, method string, params interface{}, out interface{}) (int, error) {
	body, _ := json.Marshal(map[string]interface{}{"jsonrpc": "2.0", "id": 1, "method": method, "params": params})
	resp, err := http.Post(url, "application/json", bytes.NewReader(body))
	if err != nil {
		return -1, err
	}
	defer resp.Body.Close()
	b, _ := ioutil.ReadAll(resp.Body)
	var env struct {
		Result json.RawMessage `json:"result"`
		Error  *struct {
			Code    int             `json:"code"`
			Message string          `json:"message"`
			Data    json.RawMessage `json:"data"`
		} `json:"error"`
	}
	if err := json.Unmarshal(b, &env); err != nil {
		return -1, fmt.Errorf("bad response %q", string(b))
	}
	if env.Error != nil {
		return env.Error.Code, nil
	}
	if out != nil {
		return 0, json.Unmarshal(env.Result, out)
	}
	return 0, nil
}

// APIAction identifies one history action returned by get-transactions.
type APIAction struct {
	Hash    string    `json:"hash"`
	Idx     int       `json:"idx"`
	Exec    int64     `json:"exec"`
	Height  int64     `json:"height"`
	FromAmt []int     `json:"fromAmt"`
	ToAmt   []int     `json:"toAmt"`
	Neg     bool      `json:"neg"` // an amount of the action is negative (zeroing rows): amounts not compared
	Outs    []APIPair `json:"outs"`
}

// APIPage is one page of a get-transactions query.
type APIPage struct {
	Offset  int         `json:"offset"`
	Count   int         `json:"count"`
	Next    int         `json:"next"`
	Code    int         `json:"code"`
	Actions []APIAction `json:"actions"`
}

// APIQuery is a paged query.
type APIQuery struct {
	By    string    `json:"by"` // hash | address | height
	Key   string    `json:"key"`
	Pages []APIPage `json:"pages"`
}

// APIStatus is a get-transaction-status answer.
type APIStatus struct {
	Hash   string `json:"hash"`
	Found  bool   `json:"found"`
	Height int64  `json:"height"`
	Exec   int64  `json:"exec"`
}

// APIRich is one get-rich-list answer (addresses outside the scenario's keyring are named "?...").
type APIRich struct {
	Asset string    `json:"asset"`
	Count int       `json:"count"`
	Code  int       `json:"code"`
	Rows  []APIPair `json:"rows"`
}

// APIPair is one rich-list row.
type APIPair struct {
	A   string `json:"a"`
	Amt []int  `json:"amt"`
}

// APIRates is the get-pegnet-rates answer for one height.
type APIRates struct {
	H    uint32           `json:"h"`
	Code int              `json:"code"`
	V    map[string][]int `json:"v"`
}

// APIBank is the get-bank answer for one height.
type APIBank struct {
	H    uint32 `json:"h"`
	Code int    `json:"code"`
	Amt  []int  `json:"amt"`
	Used []int  `json:"used"`
	Req  []int  `json:"req"`
	Neg  bool   `json:"neg"`
}

// APIObs is what the API says after a block.
type APIObs struct {
	Status       []APIStatus                 `json:"status"`
	Balances     map[string]map[string][]int `json:"balances"`
	Queries      []APIQuery                  `json:"queries"`
	Sync         int64                       `json:"sync"`
	Issuance     map[string][]int            `json:"issuance"`
	IssuanceCode int                         `json:"issuanceCode"`
	IssuanceSync int64                       `json:"issuanceSync"`
	Rates        APIRates                    `json:"rates"`
	Rich         []APIRich                   `json:"rich"`
	Bank         APIBank                     `json:"bank"`
}

func (r *Runner) pages(by, key string, param map[string]interface{}) APIQuery {
	q := APIQuery{By: by, Key: key, Pages: []APIPage{}}
	off := 0
	for n := 0; n < 200; n++ {
		p := map[string]interface{}{"offset": off}
		for k, v := range param {
			p[k] = v
		}
		var res struct {
			Actions []struct {
				Hash     string `json:"hash"`
				TxIndex  int    `json:"txindex"`
				Executed int64  `json:"executed"`
				Height   int64  `json:"height"`
				FromAmt  int64  `json:"fromamount"`
				ToAmt    int64  `json:"toamount"`
				Outputs  []struct {
					Address string `json:"address"`
					Amount  int64  `json:"amount"`
				} `json:"outputs"`
			} `json:"actions"`
			Count      int `json:"count"`
			NextOffset int `json:"nextoffset"`
		}
		code, err := r.Call("get-transactions", p, &res)
		pg := APIPage{Offset: off, Code: code, Actions: []APIAction{}}
		if err != nil {
			pg.Code = -1
		}
		if code == 0 && err == nil {
			pg.Count, pg.Next = res.Count, res.NextOffset
			for _, a := range res.Actions {
				act := APIAction{Hash: a.Hash, Idx: a.TxIndex, Exec: a.Executed, Height: a.Height, Outs: []APIPair{},
					Neg: a.FromAmt < 0 || a.ToAmt < 0, FromAmt: gen.Limbs(uint64(a.FromAmt)), ToAmt: gen.Limbs(uint64(a.ToAmt))}
				for _, o := range a.Outputs {
					name := "?" + o.Address
					if fa, err := factom.NewFAAddress(o.Address); err == nil {
						name = r.Chain.Keys.Name(fa)
					}
					if o.Amount < 0 {
						act.Neg = true
					}
					act.Outs = append(act.Outs, APIPair{A: name, Amt: gen.Limbs(uint64(o.Amount))})
				}
				pg.Actions = append(pg.Actions, act)
			}
		}
		q.Pages = append(q.Pages, pg)
		if pg.Code != 0 || pg.Next == 0 {
			break
		}
		off = pg.Next
	}
	return q
}

// ObserveAPI queries the real API handlers: status of every transaction entry seen so far, balances of
// every named address, and paged history queries by entry hash, by address and by height.
func (r *Runner) ObserveAPI(h uint32, hashes []string, addrs []string, heights []uint32) *APIObs {
	o := &APIObs{Status: []APIStatus{}, Balances: map[string]map[string][]int{}, Queries: []APIQuery{}}
	var ss struct {
		Sync int64 `json:"syncheight"`
	}
	r.Call("get-sync-status", nil, &ss)
	o.Sync = ss.Sync
	for _, hs := range hashes {
		var res struct {
			Height   int64 `json:"height"`
			Executed int64 `json:"executed"`
		}
		code, _ := r.Call("get-transaction-status", map[string]interface{}{"entryhash": hs}, &res)
		o.Status = append(o.Status, APIStatus{Hash: hs, Found: code == 0, Height: res.Height, Exec: res.Executed})
		o.Queries = append(o.Queries, r.pages("hash", hs, map[string]interface{}{"entryhash": hs}))
	}
	sort.Strings(addrs)
	for _, a := range addrs {
		k := r.Chain.Keys.ByName[a]
		var bal map[string]uint64
		code, _ := r.Call("get-pegnet-balances", map[string]interface{}{"address": k.FA.String()}, &bal)
		row := map[string][]int{}
		for _, t := range r.Chain.Scn.Assets {
			row[t] = gen.Limbs(bal[t])
		}
		if code == 0 {
			o.Balances[a] = row
		}
		o.Queries = append(o.Queries, r.pages("address", a, map[string]interface{}{"address": k.FA.String()}))
	}
	for _, hh := range heights {
		o.Queries = append(o.Queries, r.pages("height", fmt.Sprint(hh), map[string]interface{}{"height": hh}))
	}
	// ---- the ledger as the read methods present it: issuance, rates of this height, rich lists, bank row
	var iss struct {
		SyncStatus struct {
			Sync int64 `json:"syncheight"`
		} `json:"syncstatus"`
		Issuance map[string]uint64 `json:"issuance"`
	}
	o.Issuance = map[string][]int{}
	o.IssuanceCode, _ = r.Call("get-pegnet-issuance", nil, &iss)
	o.IssuanceSync = iss.SyncStatus.Sync
	for _, t := range r.Chain.Scn.Assets {
		o.Issuance[t] = gen.Limbs(iss.Issuance[t])
	}
	var rates map[string]uint64
	o.Rates = APIRates{H: h, V: map[string][]int{}}
	o.Rates.Code, _ = r.Call("get-pegnet-rates", map[string]interface{}{"height": h}, &rates)
	for _, t := range r.Chain.Scn.Assets {
		o.Rates.V[t] = gen.Limbs(rates[t])
	}
	o.Rich = []APIRich{}
	for i, t := range r.Chain.Scn.Assets {
		if i >= 8 {
			break
		}
		cnt := 2 + (int(h)+i)%4
		var rows []struct {
			Address string `json:"address"`
			Amount  uint64 `json:"amount"`
		}
		rl := APIRich{Asset: t, Count: cnt, Rows: []APIPair{}}
		rl.Code, _ = r.Call("get-rich-list", map[string]interface{}{"asset": t, "count": cnt}, &rows)
		for _, x := range rows {
			name := "?" + x.Address
			if fa, err := factom.NewFAAddress(x.Address); err == nil {
				name = r.Chain.Keys.Name(fa)
			}
			rl.Rows = append(rl.Rows, APIPair{A: name, Amt: gen.Limbs(x.Amount)})
		}
		o.Rich = append(o.Rich, rl)
	}
	r.Call("get-global-rich-list", map[string]interface{}{"count": 5}, nil) // answered or refused; must not disturb anything
	var bank struct {
		Height       int32
		BankAmount   int64
		BankUsed     int64
		PEGRequested int64
	}
	o.Bank = APIBank{H: h}
	o.Bank.Code, _ = r.Call("get-bank", map[string]interface{}{"height": h}, &bank)
	o.Bank.Neg = bank.BankAmount < 0 || bank.BankUsed < 0 || bank.PEGRequested < 0
	o.Bank.Amt, o.Bank.Used, o.Bank.Req = gen.Limbs(uint64(bank.BankAmount)), gen.Limbs(uint64(bank.BankUsed)), gen.Limbs(uint64(bank.PEGRequested))
	return o
}

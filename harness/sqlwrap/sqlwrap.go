// Package sqlwrap is a database/sql driver that wraps go-sqlite3 and reports every
// Begin / Prepare / Exec / Query / Commit / Rollback to a controller, which may let the
// operation proceed, make it fail once, block it (gate) or kill the process (crash point).
// It is installed through the guarded hook pegnet.VerifWrapDB (build tag verif).
package sqlwrap

import (
	"context"
	"database/sql"
	"database/sql/driver"
	"fmt"
	"runtime"
	"strings"
	"sync"

	sqlite3 "github.com/mattn/go-sqlite3"
)

// Event describes one driver-level operation.
type Event struct {
	Seq   int    // global sequence number (assigned under the controller lock)
	Conn  int    // connection id
	Kind  string // begin | commit | rollback | prepare | exec | query
	SQL   string
	InTx  bool // the connection has an open transaction
	TxSeq int  // number of events seen on this connection since its Begin (0 for the Begin itself)
	Write bool // statement text starts with INSERT / UPDATE / DELETE / REPLACE / ALTER / CREATE
	Site  string
}

// Hook is consulted before every operation; a non-nil error makes the operation fail with it.
// The hook may also block (gate) or kill the process.
type Hook func(ev *Event) error

// After is consulted after a successful Commit.
type After func(ev *Event)

// Controller is the global control surface.
type Controller struct {
	mu     sync.Mutex
	seq    int
	conns  int
	Hook   Hook
	After  After
	Sites  bool // record call sites (costly)
	Log    []Event
	Keep   bool
}

// Ctl is the process-wide controller.
var Ctl = &Controller{}

// Reset clears counters, log and hooks.
func (c *Controller) Reset() {
	c.mu.Lock()
	c.seq, c.Log, c.Hook, c.After = 0, nil, nil, nil
	c.mu.Unlock()
}

// Events returns a copy of the log.
func (c *Controller) Events() []Event {
	c.mu.Lock()
	defer c.mu.Unlock()
	return append([]Event{}, c.Log...)
}

func isWrite(q string) bool {
	q = strings.ToUpper(strings.TrimSpace(q))
	for _, p := range []string{"INSERT", "UPDATE", "DELETE", "REPLACE", "ALTER", "CREATE", "DROP", "BEGIN"} {
		if strings.HasPrefix(q, p) {
			return true
		}
	}
	return false
}

// CallSite returns the innermost three pegnetd frames of the current call stack.
func CallSite(skip int) string {
	pcs := make([]uintptr, 48)
	n := runtime.Callers(skip, pcs)
	frames := runtime.CallersFrames(pcs[:n])
	var out []string
	for {
		f, more := frames.Next()
		if strings.Contains(f.Function, "github.com/pegnet/pegnetd/") {
			fn := f.Function[strings.Index(f.Function, "github.com/pegnet/pegnetd/")+len("github.com/pegnet/pegnetd/"):]
			out = append(out, fn)
			if len(out) == 3 {
				break
			}
		}
		if !more {
			break
		}
	}
	return strings.Join(out, " <- ")
}

func (c *Controller) event(cn *conn, kind, q string) error {
	c.mu.Lock()
	c.seq++
	ev := Event{Seq: c.seq, Conn: cn.id, Kind: kind, SQL: q, InTx: cn.inTx, TxSeq: cn.txSeq, Write: isWrite(q) || kind == "commit"}
	if cn.inTx {
		cn.txSeq++
	}
	if c.Sites {
		ev.Site = CallSite(3)
	}
	if c.Keep {
		c.Log = append(c.Log, ev)
	}
	h := c.Hook
	c.mu.Unlock()
	if h != nil {
		return h(&ev)
	}
	return nil
}

// ---------------------------------------------------------------- driver

type drv struct{ inner driver.Driver }

func (d *drv) Open(name string) (driver.Conn, error) {
	c, err := d.inner.Open(name)
	if err != nil {
		return nil, err
	}
	Ctl.mu.Lock()
	Ctl.conns++
	id := Ctl.conns
	Ctl.mu.Unlock()
	return &conn{inner: c, id: id}, nil
}

type conn struct {
	inner driver.Conn
	id    int
	inTx  bool
	txSeq int
}

func (c *conn) Prepare(q string) (driver.Stmt, error) { return c.PrepareContext(context.Background(), q) }

func (c *conn) PrepareContext(ctx context.Context, q string) (driver.Stmt, error) {
	if err := Ctl.event(c, "prepare", q); err != nil {
		return nil, err
	}
	var s driver.Stmt
	var err error
	if pc, ok := c.inner.(driver.ConnPrepareContext); ok {
		s, err = pc.PrepareContext(ctx, q)
	} else {
		s, err = c.inner.Prepare(q)
	}
	if err != nil {
		return nil, err
	}
	return &stmt{inner: s, c: c, q: q}, nil
}

func (c *conn) Close() error { return c.inner.Close() }

func (c *conn) Begin() (driver.Tx, error) { return c.BeginTx(context.Background(), driver.TxOptions{}) }

func (c *conn) BeginTx(ctx context.Context, opts driver.TxOptions) (driver.Tx, error) {
	c.txSeq = 0
	if err := Ctl.event(c, "begin", "BEGIN"); err != nil {
		return nil, err
	}
	var t driver.Tx
	var err error
	if bt, ok := c.inner.(driver.ConnBeginTx); ok {
		t, err = bt.BeginTx(ctx, opts)
	} else {
		t, err = c.inner.Begin()
	}
	if err != nil {
		return nil, err
	}
	c.inTx = true
	c.txSeq = 1
	return &tx{inner: t, c: c}, nil
}

func (c *conn) ExecContext(ctx context.Context, q string, args []driver.NamedValue) (driver.Result, error) {
	if err := Ctl.event(c, "exec", q); err != nil {
		return nil, err
	}
	if e, ok := c.inner.(driver.ExecerContext); ok {
		return e.ExecContext(ctx, q, args)
	}
	return nil, driver.ErrSkip
}

func (c *conn) QueryContext(ctx context.Context, q string, args []driver.NamedValue) (driver.Rows, error) {
	if err := Ctl.event(c, "query", q); err != nil {
		return nil, err
	}
	if e, ok := c.inner.(driver.QueryerContext); ok {
		return e.QueryContext(ctx, q, args)
	}
	return nil, driver.ErrSkip
}

func (c *conn) Ping(ctx context.Context) error {
	if p, ok := c.inner.(driver.Pinger); ok {
		return p.Ping(ctx)
	}
	return nil
}

func (c *conn) ResetSession(ctx context.Context) error {
	if r, ok := c.inner.(driver.SessionResetter); ok {
		return r.ResetSession(ctx)
	}
	return nil
}

type tx struct {
	inner driver.Tx
	c     *conn
}

func (t *tx) Commit() error {
	if err := Ctl.event(t.c, "commit", "COMMIT"); err != nil {
		// a failed commit leaves the transaction open at the SQLite level; roll it back so that the
		// connection is usable, as database/sql considers the Tx done either way
		t.inner.Rollback()
		t.c.inTx = false
		return err
	}
	err := t.inner.Commit()
	t.c.inTx = false
	if err == nil {
		Ctl.mu.Lock()
		a := Ctl.After
		ev := Event{Seq: Ctl.seq, Conn: t.c.id, Kind: "committed", TxSeq: t.c.txSeq}
		Ctl.mu.Unlock()
		if a != nil {
			a(&ev)
		}
	}
	return err
}

func (t *tx) Rollback() error {
	Ctl.event(t.c, "rollback", "ROLLBACK")
	err := t.inner.Rollback()
	t.c.inTx = false
	return err
}

type stmt struct {
	inner driver.Stmt
	c     *conn
	q     string
}

func (s *stmt) Close() error  { return s.inner.Close() }
func (s *stmt) NumInput() int { return s.inner.NumInput() }

func named(args []driver.Value) []driver.NamedValue {
	out := make([]driver.NamedValue, len(args))
	for i, a := range args {
		out[i] = driver.NamedValue{Ordinal: i + 1, Value: a}
	}
	return out
}

func (s *stmt) Exec(args []driver.Value) (driver.Result, error) {
	return s.ExecContext(context.Background(), named(args))
}

func (s *stmt) Query(args []driver.Value) (driver.Rows, error) {
	return s.QueryContext(context.Background(), named(args))
}

func (s *stmt) ExecContext(ctx context.Context, args []driver.NamedValue) (driver.Result, error) {
	if err := Ctl.event(s.c, "exec", s.q); err != nil {
		return nil, err
	}
	if e, ok := s.inner.(driver.StmtExecContext); ok {
		return e.ExecContext(ctx, args)
	}
	vals := make([]driver.Value, len(args))
	for i, a := range args {
		vals[i] = a.Value
	}
	return s.inner.Exec(vals)
}

func (s *stmt) QueryContext(ctx context.Context, args []driver.NamedValue) (driver.Rows, error) {
	if err := Ctl.event(s.c, "query", s.q); err != nil {
		return nil, err
	}
	if e, ok := s.inner.(driver.StmtQueryContext); ok {
		return e.QueryContext(ctx, args)
	}
	vals := make([]driver.Value, len(args))
	for i, a := range args {
		vals[i] = a.Value
	}
	return s.inner.Query(vals)
}

var once sync.Once

// DriverName is the name the wrapping driver is registered under.
const DriverName = "sqlite3-verif"

// Register registers the driver (idempotent).
func Register() {
	once.Do(func() { sql.Register(DriverName, &drv{inner: &sqlite3.SQLiteDriver{}}) })
}

// Wrap is the function to install as pegnet.VerifWrapDB.
func Wrap(db *sql.DB, dsn string) *sql.DB {
	Register()
	db.Close()
	n, err := sql.Open(DriverName, dsn)
	if err != nil {
		panic(fmt.Sprintf("sqlwrap: %v", err))
	}
	return n
}

package main

import (
	"fmt"

	"github.com/pegnet/pegnetd/node"
)

func main() { fmt.Println(node.AveragePeriod) }

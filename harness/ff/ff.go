// Package ff is a fake factomd: it serves a pre-built chain of directory blocks
// (with entry blocks, entries and factoid blocks) over the factomd v2 JSON-RPC API,
// using exactly the binary layouts the factom client library verifies (Merkle roots,
// KeyMRs, entry hashes). It also offers the control surface the checks need: a movable
// tip, per-request fault injection, and a request log.
package ff

import (
	"bytes"
	"crypto/sha256"
	"encoding/binary"
	"encoding/hex"
	"encoding/json"
	"fmt"
	"io/ioutil"
	"net"
	"net/http"
	"sort"
	"sync"
	"time"

	"github.com/Factom-Asset-Tokens/factom"
	"github.com/Factom-Asset-Tokens/factom/varintf"
)

// Entry is one chain entry placed in a block.
type Entry struct {
	ChainID factom.Bytes32
	ExtIDs  [][]byte
	Content []byte
	Minute  int // 1..10, minute marker that follows the entry (entry timestamp = block time + Minute min)
}

// Raw returns the binary encoding of the entry.
func (e *Entry) Raw() []byte {
	ext := 0
	for _, x := range e.ExtIDs {
		ext += 2 + len(x)
	}
	data := make([]byte, 35+ext+len(e.Content))
	i := 1
	i += copy(data[i:], e.ChainID[:])
	binary.BigEndian.PutUint16(data[i:], uint16(ext))
	i += 2
	for _, x := range e.ExtIDs {
		binary.BigEndian.PutUint16(data[i:], uint16(len(x)))
		i += 2
		i += copy(data[i:], x)
	}
	copy(data[i:], e.Content)
	return data
}

// Hash returns the entry hash.
func (e *Entry) Hash() factom.Bytes32 { return factom.ComputeEntryHash(e.Raw()) }

// FIO is a factoid transaction input/output.
type FIO struct {
	Amount  uint64
	Address factom.Bytes32
}

// FTx is a factoid transaction (signatures are never verified by pegnetd; the
// signature block is filled with the RCD and 64 zero bytes).
type FTx struct {
	MilliTime uint64
	Inputs    []FIO
	Outputs   []FIO
	ECOutputs []FIO
	RCDKeys   [][32]byte // one public key per input
}

func fioBytes(ios []FIO) []byte {
	var b []byte
	for _, io := range ios {
		b = append(b, varintf.Encode(io.Amount)...)
		b = append(b, io.Address[:]...)
	}
	return b
}

// Raw returns the binary encoding of the transaction and the length of its ledger part.
func (t *FTx) Raw() (raw []byte, ledgerLen int) {
	b := varintf.Encode(2)
	ms := make([]byte, 8)
	binary.BigEndian.PutUint64(ms, t.MilliTime)
	b = append(b, ms[2:]...)
	b = append(b, byte(len(t.Inputs)), byte(len(t.Outputs)), byte(len(t.ECOutputs)))
	b = append(b, fioBytes(t.Inputs)...)
	b = append(b, fioBytes(t.Outputs)...)
	b = append(b, fioBytes(t.ECOutputs)...)
	ledgerLen = len(b)
	for i := range t.Inputs {
		b = append(b, 1)
		var k [32]byte
		if i < len(t.RCDKeys) {
			k = t.RCDKeys[i]
		}
		b = append(b, k[:]...)
		b = append(b, make([]byte, 64)...)
	}
	return b, ledgerLen
}

// TxID returns the transaction id (hash of the ledger part).
func (t *FTx) TxID() factom.Bytes32 {
	raw, l := t.Raw()
	return sha256.Sum256(raw[:l])
}

// Block is the content of one directory block height.
type Block struct {
	Height  uint32
	Time    time.Time
	Entries []Entry // all tracked-chain entries, in block order (per chain order is preserved)
	Factoid []FTx   // besides the coinbase
}

type built struct {
	dblockRaw []byte
	keyMR     factom.Bytes32
	fblockRaw []byte
}

// Request describes one upstream request as seen by the server.
type Request struct {
	Seq    int
	Method string
	Height int64  // for *-by-height, else -1
	Hash   string // for raw-data
	Client string // value of the "client" query parameter of the URL, if any
}

// Server is the fake factomd.
type Server struct {
	mu      sync.Mutex
	blocks  map[uint32]*built
	raw     map[factom.Bytes32][]byte
	tip     uint32
	seq     int
	Log     []Request
	KeepLog bool
	// Fault, if set, is consulted for every request (under the lock); a non-empty
	// return value makes the server answer with a JSON-RPC error carrying that text.
	Fault func(r Request) string
	// Delay, if set, returns a delay applied (outside the lock) before answering.
	Delay func(r Request) time.Duration

	ln  net.Listener
	srv *http.Server
	URL string

	prevKeyMR  factom.Bytes32
	prevEBlock map[factom.Bytes32]ebHead
}

type ebHead struct {
	keyMR, full factom.Bytes32
	seq         uint32
}

// New creates a server with no blocks.
func New() *Server {
	return &Server{blocks: map[uint32]*built{}, raw: map[factom.Bytes32][]byte{}, prevEBlock: map[factom.Bytes32]ebHead{}}
}

func merkle(elems [][]byte, hashLeaves bool) factom.Bytes32 {
	// Merkle root with odd nodes doubled, as github.com/AdamSLevy/go-merkle does with DoubleOddNodes.
	var level [][]byte
	for _, e := range elems {
		if hashLeaves {
			h := sha256.Sum256(e)
			level = append(level, h[:])
		} else {
			level = append(level, e)
		}
	}
	if len(level) == 0 {
		return factom.Bytes32{}
	}
	for len(level) > 1 {
		if len(level)%2 == 1 {
			level = append(level, level[len(level)-1])
		}
		var next [][]byte
		for i := 0; i < len(level); i += 2 {
			h := sha256.Sum256(append(append([]byte{}, level[i]...), level[i+1]...))
			next = append(next, h[:])
		}
		level = next
	}
	var r factom.Bytes32
	copy(r[:], level[0])
	return r
}

// Add builds and stores the block. Blocks must be added in ascending height order.
func (s *Server) Add(b *Block) error {
	s.mu.Lock()
	defer s.mu.Unlock()
	type chainEntries struct {
		id      factom.Bytes32
		entries []*Entry
	}
	var order []factom.Bytes32
	byChain := map[factom.Bytes32]*chainEntries{}
	for i := range b.Entries {
		e := &b.Entries[i]
		ce := byChain[e.ChainID]
		if ce == nil {
			ce = &chainEntries{id: e.ChainID}
			byChain[e.ChainID] = ce
			order = append(order, e.ChainID)
		}
		ce.entries = append(ce.entries, e)
	}
	sort.Slice(order, func(i, j int) bool { return bytes.Compare(order[i][:], order[j][:]) < 0 })

	// --- entry blocks
	type ebref struct{ chain, keyMR factom.Bytes32 }
	var ebrefs []ebref
	for _, cid := range order {
		ce := byChain[cid]
		// objects: entry hashes with minute markers; entries must be in non-decreasing minute order
		var objects [][]byte
		lastMin := 0
		for _, e := range ce.entries {
			m := e.Minute
			if m < 1 {
				m = 1
			}
			if m > 10 {
				m = 10
			}
			if m < lastMin {
				m = lastMin
			}
			if lastMin != 0 && m > lastMin {
				mk := make([]byte, 32)
				mk[31] = byte(lastMin)
				objects = append(objects, mk)
			}
			lastMin = m
			raw := e.Raw()
			h := factom.ComputeEntryHash(raw)
			s.raw[h] = raw
			objects = append(objects, append([]byte{}, h[:]...))
		}
		mk := make([]byte, 32)
		mk[31] = byte(lastMin)
		objects = append(objects, mk)
		bodyMR := merkle(objects, false)
		prev := s.prevEBlock[cid]
		hdr := make([]byte, factom.EBlockHeaderLen)
		i := copy(hdr, cid[:])
		i += copy(hdr[i:], bodyMR[:])
		i += copy(hdr[i:], prev.keyMR[:])
		i += copy(hdr[i:], prev.full[:])
		seq := prev.seq
		binary.BigEndian.PutUint32(hdr[i:], seq)
		i += 4
		binary.BigEndian.PutUint32(hdr[i:], b.Height)
		i += 4
		binary.BigEndian.PutUint32(hdr[i:], uint32(len(objects)))
		data := append([]byte{}, hdr...)
		for _, o := range objects {
			data = append(data, o...)
		}
		hh := factom.ComputeEBlockHeaderHash(data)
		keyMR := factom.ComputeKeyMR(&hh, &bodyMR)
		s.raw[keyMR] = data
		s.prevEBlock[cid] = ebHead{keyMR: keyMR, full: factom.ComputeFullHash(data), seq: seq + 1}
		ebrefs = append(ebrefs, ebref{cid, keyMR})
	}

	// --- factoid block
	fraw, fkeymr := s.buildFBlock(b)

	// --- directory block
	var elements [][]byte
	add := func(c, k factom.Bytes32) {
		el := make([]byte, 64)
		copy(el, c[:])
		copy(el[32:], k[:])
		elements = append(elements, el)
	}
	add(factom.ABlockChainID(), sha256.Sum256([]byte(fmt.Sprintf("ablock-%d", b.Height))))
	add(factom.ECBlockChainID(), sha256.Sum256([]byte(fmt.Sprintf("ecblock-%d", b.Height))))
	add(factom.FBlockChainID(), fkeymr)
	for _, r := range ebrefs {
		add(r.chain, r.keyMR)
	}
	bodyMR := merkle(elements, true)
	hdr := make([]byte, factom.DBlockHeaderLen)
	i := 1
	i += copy(hdr[i:], []byte{0xFA, 0x92, 0xE5, 0xA2})
	i += copy(hdr[i:], bodyMR[:])
	i += copy(hdr[i:], s.prevKeyMR[:])
	i += 32 // prev full hash: zero
	binary.BigEndian.PutUint32(hdr[i:], uint32(b.Time.Unix()/60))
	i += 4
	binary.BigEndian.PutUint32(hdr[i:], b.Height)
	i += 4
	binary.BigEndian.PutUint32(hdr[i:], uint32(len(elements)))
	data := append([]byte{}, hdr...)
	for _, el := range elements {
		data = append(data, el...)
	}
	hh := factom.ComputeDBlockHeaderHash(data)
	keyMR := factom.ComputeKeyMR(&hh, &bodyMR)
	s.prevKeyMR = keyMR
	s.blocks[b.Height] = &built{dblockRaw: data, keyMR: keyMR, fblockRaw: fraw}
	return nil
}

func (s *Server) buildFBlock(b *Block) ([]byte, factom.Bytes32) {
	// coinbase first
	cb := FTx{MilliTime: uint64(b.Time.Unix()) * 1000}
	txs := append([]FTx{cb}, b.Factoid...)
	var body []byte
	var elems [][]byte
	for i := range txs {
		raw, _ := txs[i].Raw()
		body = append(body, raw...)
		elems = append(elems, raw)
	}
	for i := 0; i < 10; i++ {
		body = append(body, 0)
		elems = append(elems, []byte{0})
	}
	bodyMR := merkle(elems, true)
	fc := factom.FBlockChainID()
	hdr := append([]byte{}, fc[:]...)
	hdr = append(hdr, bodyMR[:]...)
	hdr = append(hdr, make([]byte, 64)...) // prev keymr, prev ledger keymr
	x := make([]byte, 8)
	binary.BigEndian.PutUint64(x, 1000)
	hdr = append(hdr, x...)
	binary.BigEndian.PutUint32(x, b.Height)
	hdr = append(hdr, x[:4]...)
	hdr = append(hdr, 0) // expansion size varint 0
	binary.BigEndian.PutUint32(x, uint32(len(txs)))
	hdr = append(hdr, x[:4]...)
	binary.BigEndian.PutUint32(x, uint32(len(body)))
	hdr = append(hdr, x[:4]...)
	hh := sha256.Sum256(hdr)
	keymr := merkle([][]byte{hh[:], bodyMR[:]}, false)
	return append(hdr, body...), keymr
}

// SetKeepLog switches the request log on or off.
func (s *Server) SetKeepLog(v bool) { s.mu.Lock(); s.KeepLog = v; s.mu.Unlock() }

// SetTip sets the directory block height reported by "heights".
func (s *Server) SetTip(h uint32) { s.mu.Lock(); s.tip = h; s.mu.Unlock() }

// Tip returns the current tip.
func (s *Server) Tip() uint32 { s.mu.Lock(); defer s.mu.Unlock(); return s.tip }

// Requests returns a copy of the request log.
func (s *Server) Requests() []Request {
	s.mu.Lock()
	defer s.mu.Unlock()
	return append([]Request{}, s.Log...)
}

// Seq returns the number of requests served so far.
func (s *Server) Seq() int { s.mu.Lock(); defer s.mu.Unlock(); return s.seq }

// Start listens on a loopback port.
func (s *Server) Start() error {
	ln, err := net.Listen("tcp", "127.0.0.1:0")
	if err != nil {
		return err
	}
	s.ln = ln
	s.URL = "http://" + ln.Addr().String() + "/v2"
	mux := http.NewServeMux()
	mux.HandleFunc("/v2", s.handle)
	s.srv = &http.Server{Handler: mux}
	go s.srv.Serve(ln)
	return nil
}

// Stop closes the listener.
func (s *Server) Stop() {
	if s.srv != nil {
		s.srv.Close()
	}
}

type rpcReq struct {
	ID     json.RawMessage `json:"id"`
	Method string          `json:"method"`
	Params json.RawMessage `json:"params"`
}

func (s *Server) handle(w http.ResponseWriter, r *http.Request) {
	body, _ := ioutil.ReadAll(r.Body)
	var q rpcReq
	if err := json.Unmarshal(body, &q); err != nil {
		http.Error(w, "bad request", 400)
		return
	}
	var p struct {
		Height *uint32 `json:"height"`
		Hash   string  `json:"hash"`
	}
	json.Unmarshal(q.Params, &p)
	req := Request{Method: q.Method, Height: -1, Hash: p.Hash}
	if p.Height != nil {
		req.Height = int64(*p.Height)
	}
	tipOverride := int64(-1)
	if t := r.URL.Query().Get("tip"); t != "" {
		fmt.Sscan(t, &tipOverride)
	}
	req.Client = r.URL.Query().Get("client")
	s.mu.Lock()
	s.seq++
	req.Seq = s.seq
	if s.KeepLog {
		s.Log = append(s.Log, req)
	}
	fault := ""
	if s.Fault != nil {
		fault = s.Fault(req)
	}
	var result interface{}
	var errText string
	if fault == "" {
		saved := s.tip
		if tipOverride >= 0 {
			s.tip = uint32(tipOverride)
		}
		result, errText = s.answer(q.Method, req, p.Hash)
		s.tip = saved
	} else {
		errText = fault
	}
	s.mu.Unlock()
	if s.Delay != nil {
		if d := s.Delay(req); d > 0 {
			time.Sleep(d)
		}
	}
	w.Header().Set("Content-Type", "application/json")
	if errText != "" {
		fmt.Fprintf(w, `{"jsonrpc":"2.0","id":%s,"error":{"code":-32008,"message":%q}}`, string(q.ID), errText)
		return
	}
	res, _ := json.Marshal(result)
	fmt.Fprintf(w, `{"jsonrpc":"2.0","id":%s,"result":%s}`, string(q.ID), res)
}

func (s *Server) answer(method string, req Request, hash string) (interface{}, string) {
	switch method {
	case "heights":
		return map[string]uint32{"directoryblockheight": s.tip, "leaderheight": s.tip, "entryblockheight": s.tip, "entryheight": s.tip}, ""
	case "dblock-by-height":
		b := s.blocks[uint32(req.Height)]
		if b == nil || uint32(req.Height) > s.tip {
			return nil, "Block not found"
		}
		return map[string]interface{}{"rawdata": hex.EncodeToString(b.dblockRaw), "dblock": map[string]string{"keymr": hex.EncodeToString(b.keyMR[:])}}, ""
	case "fblock-by-height":
		b := s.blocks[uint32(req.Height)]
		if b == nil || uint32(req.Height) > s.tip {
			return nil, "Block not found"
		}
		return map[string]interface{}{"rawdata": hex.EncodeToString(b.fblockRaw)}, ""
	case "raw-data":
		var h factom.Bytes32
		if err := h.Set(hash); err != nil {
			return nil, "bad hash"
		}
		d, ok := s.raw[h]
		if !ok {
			return nil, "Entry not found"
		}
		return map[string]string{"data": hex.EncodeToString(d)}, ""
	}
	return nil, "Method not found"
}

// c19: replay abstract version-lock histories (C19) against the real pegnetd code.
//
// Input  (NDJSON, one case per line):
//
//	{"id":"..","forks":[{"h":0,"m":-1},{"h":3,"m":1}],
//	 "hist":[{"v":-1,"n":2,"force":true},{"v":1,"n":1,"force":true}],"builds":[0,1,2]}
//
// For every case a fresh SQLite database is created in a scratch directory and the
// history is realised with the real code:
//
//   - session of a build with version tracking (v >= 0): pegnet.PegnetdSyncVersion = v,
//     pegnet.Hardforks = table, node.NewPegnetd(conf) (which opens the database through
//     pegnet.New/Init and calls CheckHardForks).  Refused: the session does not run,
//     unless "force" is set; then it is started again with config.DisableHardForkCheck
//     (--no-hf).  A running session commits n blocks the way DBlockSync does for the
//     version lock: tx := DB.Begin(); InsertSynced(tx, &BlockSync{Synced: h}); tx.Commit().
//   - session of a build predating version tracking (v = -1): no start-up check; every
//     block is committed with the real InsertSynced, but the pn_sync_version row is
//     deleted again inside the same transaction (such a build never wrote it).
//   - final start-ups: for every build in "builds" the database file is copied and
//     node.NewPegnetd is called on the copy without and with DisableHardForkCheck.
//
// Output: the case plus what was observed ("obs").  No verdict is computed here; TLC
// decides (Trace_VersionLock.tla).  The package variables are global, so this binary is
// single threaded; the driver runs several processes on slices of the case file.
package main

import (
	"bufio"
	"context"
	"database/sql"
	"encoding/json"
	"flag"
	"fmt"
	"io"
	"io/ioutil"
	"os"
	"path/filepath"
	"runtime/pprof"
	"sort"
	"strings"

	"github.com/pegnet/pegnetd/config"
	"github.com/pegnet/pegnetd/node"
	"github.com/pegnet/pegnetd/node/pegnet"
	log "github.com/sirupsen/logrus"
	"github.com/spf13/viper"

	"verif/harness/run"
)

type Fork struct {
	H uint32 `json:"h"`
	M int    `json:"m"`
}

type Session struct {
	V     int  `json:"v"`
	N     int  `json:"n"`
	Force bool `json:"force"`
}

type Case struct {
	ID     string    `json:"id"`
	Forks  []Fork    `json:"forks"`
	Hist   []Session `json:"hist"`
	Builds []int     `json:"builds"`
}

// Start is one observed start-up (node.NewPegnetd).
type Start struct {
	Build   int    `json:"build"`
	Refused bool   `json:"refused"`         // without --no-hf
	Err     string `json:"err"`             // "", "fork", "downgrade", "check-other"
	NoHf    string `json:"nohf"`            // with --no-hf: "na" (not tried), "acc", "ref"
	Ran     bool   `json:"ran"`             // sessions only: the session synced its blocks
	Text    string `json:"text,omitempty"`  // error text (truncated)
	Table   [][2]int `json:"table,omitempty"` // finals: pn_sync_version after the start-up
}

type Obs struct {
	Sess   []Start  `json:"sess"`
	Final  []Start  `json:"final"`
	Synced int      `json:"synced"` // pn_metadata synced height after the last session (0 = absent)
	Table  [][2]int `json:"table"`  // pn_sync_version after the last session
}

type Out struct {
	Case
	Obs   Obs    `json:"obs"`
	Infra string `json:"infra,omitempty"`
}

func newConf(dbpath string, nohf bool) *viper.Viper {
	conf := viper.New()
	conf.Set(config.SqliteDBPath, dbpath)
	conf.Set(config.Network, "MainNet")
	conf.Set(config.Server, "http://127.0.0.1:1/v2")
	conf.Set(config.Wallet, "http://127.0.0.1:1/v2")
	conf.Set(config.DisableHardForkCheck, nohf)
	return conf
}

func classify(err error) (string, string, bool) {
	if err == nil {
		return "", "", false
	}
	t := err.Error()
	short := t
	if len(short) > 160 {
		short = short[:160]
	}
	switch {
	case strings.Contains(t, "a hardfork occurred at height"):
		return "fork", short, false
	case strings.Contains(t, "pegnetd downgrade was detected"):
		return "downgrade", short, false
	case strings.HasPrefix(t, "pegnetd database hardfork check failed"):
		return "check-other", short, false
	case strings.Contains(t, "migration") || strings.Contains(t, "duplicate column") || strings.Contains(t, "no such column"):
		// the start-up refused the database for another reason than the version lock: still a refusal of that database
		return "check-other", short, false
	}
	// not an answer of the hard fork check at all (cannot open database, ...)
	return "infra", short, true
}

// start performs one real start-up with the given build version.
func start(dbpath string, build int, nohf bool) (*node.Pegnetd, error) {
	pegnet.PegnetdSyncVersion = build
	return node.NewPegnetd(context.Background(), newConf(dbpath, nohf))
}

func syncBlocks(p *pegnet.Pegnet, from, n int, legacy bool) error {
	for h := from + 1; h <= from+n; h++ {
		tx, err := p.DB.Begin()
		if err != nil {
			return err
		}
		if err := p.InsertSynced(tx, &pegnet.BlockSync{Synced: uint32(h)}); err != nil {
			tx.Rollback()
			return fmt.Errorf("InsertSynced(%d): %v", h, err)
		}
		if legacy {
			if _, err := tx.Exec(`DELETE FROM pn_sync_version WHERE height = ?`, h); err != nil {
				tx.Rollback()
				return err
			}
		}
		if err := tx.Commit(); err != nil {
			return err
		}
	}
	return nil
}

func dumpTable(db *sql.DB) ([][2]int, error) {
	rows, err := db.Query(`SELECT height, version FROM pn_sync_version ORDER BY height`)
	if err != nil {
		return nil, err
	}
	defer rows.Close()
	out := [][2]int{}
	for rows.Next() {
		var h, v int
		if err := rows.Scan(&h, &v); err != nil {
			return nil, err
		}
		out = append(out, [2]int{h, v})
	}
	return out, rows.Err()
}

func copyFile(src, dst string) error {
	b, err := ioutil.ReadFile(src)
	if err != nil {
		return err
	}
	if err := os.MkdirAll(filepath.Dir(dst), 0777); err != nil {
		return err
	}
	return ioutil.WriteFile(dst, b, 0666)
}

func runCase(c Case, dir string) (out Out) {
	out.Case = c
	out.Obs.Sess = []Start{}
	out.Obs.Final = []Start{}
	out.Obs.Table = [][2]int{}
	fail := func(f string, a ...interface{}) Out {
		out.Infra = fmt.Sprintf(f, a...)
		return out
	}

	table := make([]pegnet.ForkEvent, 0, len(c.Forks))
	fs := append([]Fork{}, c.Forks...)
	sort.SliceStable(fs, func(i, j int) bool {
		if fs[i].H != fs[j].H {
			return fs[i].H < fs[j].H
		}
		return fs[i].M < fs[j].M
	})
	for _, f := range fs {
		table = append(table, pegnet.ForkEvent{ActivationHeight: f.H, MinimumVersion: f.M})
	}
	pegnet.Hardforks = table

	dbpath := filepath.Join(dir, "db", "pegnet.db") // the code appends ".v4"
	// how old the database file is has no bearing on the verdict: for two thirds of the cases its balance table predates the
	// newer asset lists (the daemon's own start-up migrations bring it up to date)
	sum := 0
	for _, ch := range c.ID {
		sum += int(ch)
	}
	if era := []string{"", "pre-v5", "pre-v4"}[sum%3]; era != "" && len(c.Hist) > 0 && c.Hist[0].V >= 0 {
		os.MkdirAll(filepath.Dir(dbpath), 0777)
		if err := run.CreateLegacyAddresses(dbpath+".v4", era); err != nil {
			return fail("legacy schema: %v", err)
		}
	}
	synced := 0
	for _, s := range c.Hist {
		st := Start{Build: s.V, NoHf: "na"}
		if s.V < 0 {
			// build predating version tracking: no check at start-up
			p := pegnet.New(newConf(dbpath, false))
			if err := p.Init(); err != nil {
				if kind, text, infra := classify(err); !infra {
					// the start-up code itself refused the database (e.g. a migration error): an observation, not a harness problem
					st.Refused, st.Err, st.Text = true, kind, text
					out.Obs.Sess = append(out.Obs.Sess, st)
					break
				}
				return fail("legacy init: %v", err)
			}
			if err := syncBlocks(p, synced, s.N, true); err != nil {
				return fail("legacy sync: %v", err)
			}
			p.DB.Close()
			synced += s.N
			st.Ran = true
			out.Obs.Sess = append(out.Obs.Sess, st)
			continue
		}
		n, err := start(dbpath, s.V, false)
		var infra bool
		st.Err, st.Text, infra = classify(err)
		if infra {
			return fail("session start: %v", err)
		}
		st.Refused = err != nil
		if st.Refused && s.Force {
			n, err = start(dbpath, s.V, true)
			if err != nil {
				st.NoHf = "ref"
				if _, _, infra := classify(err); infra {
					return fail("session start --no-hf: %v", err)
				}
			} else {
				st.NoHf = "acc"
			}
		}
		if n != nil {
			pegnet.PegnetdSyncVersion = s.V
			if err := syncBlocks(n.Pegnet, synced, s.N, false); err != nil {
				n.Pegnet.DB.Close()
				return fail("sync: %v", err)
			}
			n.Pegnet.DB.Close()
			synced += s.N
			st.Ran = true
		}
		out.Obs.Sess = append(out.Obs.Sess, st)
	}

	// what the sessions left behind
	if _, err := os.Stat(dbpath + ".v4"); err == nil {
		db, err := sql.Open("sqlite3", dbpath+".v4")
		if err != nil {
			return fail("open for dump: %v", err)
		}
		t, err := dumpTable(db)
		if err != nil {
			db.Close()
			return fail("dump: %v", err)
		}
		out.Obs.Table = t
		var data []byte
		if err := db.QueryRow(`SELECT value FROM pn_metadata WHERE name = 'synced'`).Scan(&data); err == nil {
			var bs pegnet.BlockSync
			if json.Unmarshal(data, &bs) == nil {
				out.Obs.Synced = int(bs.Synced)
			}
		}
		db.Close()
	}
	if out.Obs.Synced != synced {
		return fail("bookkeeping: synced %d in database, %d expected", out.Obs.Synced, synced)
	}

	for i, b := range c.Builds {
		st := Start{Build: b, NoHf: "na"}
		cp := filepath.Join(dir, fmt.Sprintf("final%d", i), "pegnet.db")
		if _, err := os.Stat(dbpath + ".v4"); err == nil {
			if err := copyFile(dbpath+".v4", cp+".v4"); err != nil {
				return fail("copy: %v", err)
			}
		}
		n, err := start(cp, b, false)
		var infra bool
		st.Err, st.Text, infra = classify(err)
		if infra {
			return fail("final start: %v", err)
		}
		st.Refused = err != nil
		if n != nil {
			st.Table, _ = dumpTable(n.Pegnet.DB)
			n.Pegnet.DB.Close()
		}
		// --no-hf: always after a refusal, and once per case after an acceptance
		if st.Refused || i == 0 {
			n, err = start(cp, b, true)
			if err != nil {
				if _, _, infra := classify(err); infra {
					return fail("final start --no-hf: %v", err)
				}
				st.NoHf = "ref"
			} else {
				st.NoHf = "acc"
				if st.Table == nil {
					st.Table, _ = dumpTable(n.Pegnet.DB)
				}
				n.Pegnet.DB.Close()
			}
		}
		out.Obs.Final = append(out.Obs.Final, st)
	}
	return out
}

func main() {
	in := flag.String("in", "", "case file (NDJSON)")
	outp := flag.String("out", "", "observation file (NDJSON)")
	from := flag.Int("from", 0, "first line (0-based)")
	to := flag.Int("to", -1, "one past the last line (-1: all)")
	tmp := flag.String("tmp", "", "scratch directory (removed afterwards)")
	prof := flag.String("cpuprofile", "", "write a CPU profile (diagnostics)")
	flag.Parse()
	if *prof != "" {
		pf, _ := os.Create(*prof)
		pprof.StartCPUProfile(pf)
		defer pprof.StopCPUProfile()
	}
	if *in == "" || *outp == "" || *tmp == "" {
		fmt.Fprintln(os.Stderr, "usage: c19 -in cases.ndjson -out obs.ndjson -tmp dir [-from i -to j]")
		os.Exit(2)
	}
	log.SetOutput(io.Discard)
	log.SetLevel(log.PanicLevel)

	if err := os.MkdirAll(*tmp, 0777); err != nil {
		fmt.Fprintln(os.Stderr, err)
		os.Exit(2)
	}
	defer os.RemoveAll(*tmp)
	// grader.InitLX (end of NewPegnetd) builds/loads an LXR table below $HOME
	os.Setenv("HOME", *tmp)
	os.Setenv("LXRBITSIZE", "8")

	f, err := os.Open(*in)
	if err != nil {
		fmt.Fprintln(os.Stderr, err)
		os.Exit(2)
	}
	defer f.Close()
	of, err := os.Create(*outp)
	if err != nil {
		fmt.Fprintln(os.Stderr, err)
		os.Exit(2)
	}
	w := bufio.NewWriterSize(of, 1<<20)
	enc := json.NewEncoder(w)

	sc := bufio.NewScanner(f)
	sc.Buffer(make([]byte, 1<<20), 1<<24)
	ln := -1
	done := 0
	for sc.Scan() {
		ln++
		if ln < *from || (*to >= 0 && ln >= *to) {
			continue
		}
		line := strings.TrimSpace(sc.Text())
		if line == "" {
			continue
		}
		var c Case
		if err := json.Unmarshal([]byte(line), &c); err != nil {
			fmt.Fprintf(os.Stderr, "line %d: %v\n", ln, err)
			os.RemoveAll(*tmp)
			os.Exit(2)
		}
		dir := filepath.Join(*tmp, fmt.Sprintf("c%d", ln))
		o := runCase(c, dir)
		os.RemoveAll(dir)
		if err := enc.Encode(o); err != nil {
			fmt.Fprintln(os.Stderr, err)
			os.RemoveAll(*tmp)
			os.Exit(2)
		}
		done++
	}
	if err := sc.Err(); err != nil {
		fmt.Fprintln(os.Stderr, err)
		os.RemoveAll(*tmp)
		os.Exit(2)
	}
	w.Flush()
	of.Close()
	fmt.Printf("done %d\n", done)
}

package main

import (
	"encoding/json"
	"flag"
	"os"

	"github.com/pegnet/pegnetd/config"
	"github.com/pegnet/pegnetd/fat/fat2"
	"github.com/pegnet/pegnetd/node"
	"github.com/pegnet/pegnetd/node/conversions"
	"github.com/pegnet/pegnetd/node/pegnet"
)

// cmdConsts prints the network configuration the daemon is built with (no scenario, no schedule applied):
// activation heights, issuance constants, tables. It is compared with Config.tla by TLC.
func cmdConsts(args []string) {
	fs := flag.NewFlagSet("consts", flag.ExitOnError)
	out := fs.String("out", "", "output file (ndjson, one line)")
	fs.Parse(args)
	devs := []map[string]interface{}{}
	for _, d := range node.DeveloperRewardAddreses {
		devs = append(devs, map[string]interface{}{"a": d.DevAddress, "pct": int(d.DevRewardPct * 100)})
	}
	mint := map[string]interface{}{}
	for _, m := range node.MintTotalSupplyMap {
		mint[m.Ticker.String()] = int(m.Amount)
	}
	forks := []map[string]interface{}{}
	for _, f := range pegnet.Hardforks {
		forks = append(forks, map[string]interface{}{"h": int(f.ActivationHeight), "min": f.MinimumVersion})
	}
	u := func(v uint64) int { return int(v / 100000000) }
	v := map[string]interface{}{
		"ev": "Config",
		"act": map[string]int{
			"Pegnet": int(config.PegnetActivation), "GradingV2": int(config.GradingV2Activation), "TxConv": int(config.TransactionConversionActivation),
			"PEGPricing": int(config.PEGPricingActivation), "OneWaypFCT": int(config.OneWaypFCTConversions), "ConvLimit": int(config.PegnetConversionLimitActivation),
			"PEGFloat": int(config.PEGFreeFloatingPriceActivation), "V4": int(config.V4OPRUpdate), "RCDe": int(fat2.Fat2RCDEActivation),
			"V20": int(config.V20HeightActivation), "DevRewards": int(config.V20DevRewardsHeightActivation), "SprSig": int(config.SprSignatureActivation),
			"OneWaySmall": int(config.OneWaySmallAssetsConversions), "V202": int(config.V202EnhanceActivation), "V204": int(config.V204EnhanceActivation),
			"V204Burn": int(config.V204BurnMintedTokenActivation), "PIP10": int(config.PIP10AverageActivation),
		},
		"pegPerBlock": map[string]int{"bank": u(conversions.PerBlock), "miners": u(conversions.PerBlockMiners), "pastMiners": u(conversions.PerBlockPastMiners),
			"holders": u(conversions.PerBlockAssetHolders), "stakers": u(conversions.PerBlockStakers), "developers": u(conversions.PerBlockDevelopers)},
		"snapshotRate": int(pegnet.SnapshotRate), "avgPeriod": int(node.AveragePeriod), "avgRequired": int(node.AverageRequired),
		"devs": devs, "mint": mint, "forks": forks, "syncVersion": pegnet.PegnetdSyncVersion,
		"burn": node.GlobalBurnAddress, "oldBurn": node.GlobalOldBurnAddress, "mintAddr": node.GlobalMintAddress, "fctBurn": node.BurnAddress,
		"tickers": int(fat2.PTickerMax) - 1,
	}
	b, _ := json.Marshal(v)
	if *out == "" {
		os.Stdout.Write(append(b, '\n'))
		return
	}
	if err := os.WriteFile(*out, append(b, '\n'), 0666); err != nil {
		die(70, "%v", err)
	}
}

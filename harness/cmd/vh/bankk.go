package main

import (
	"bufio"
	"encoding/json"
	"flag"
	"fmt"
	"os"

	"github.com/pegnet/pegnet/modules/transactionid"
	"github.com/pegnet/pegnetd/node/conversions"
)

// cmdBankK calls the real PEG bank kernel (conversions.ConversionSupplySet.Payouts and conversions.Refund) on all small
// request vectors / arguments and writes one line per call. TLC compares every line with LedgerBlock.PegYields / Refund
// (Trace_BankK.tla).
func cmdBankK(args []string) {
	fs := flag.NewFlagSet("bankk", flag.ExitOnError)
	out := fs.String("out", "", "output file (ndjson)")
	fs.Parse(args)
	f, err := os.Create(*out)
	if err != nil {
		die(70, "%v", err)
	}
	w := bufio.NewWriter(f)
	enc := json.NewEncoder(w)
	ids := make([]string, 3)
	for i := range ids {
		ids[i] = transactionid.FormatTxID(0, fmt.Sprintf("%064x", 0xa0+i))
	}
	for _, bank := range []uint64{0, 2, 5, 7} {
		for a := uint64(0); a <= 6; a++ {
			for b := uint64(0); b <= 6; b++ {
				for c := uint64(0); c <= 6; c++ {
					s := conversions.NewConversionSupply(bank)
					wants := []uint64{a, b, c}
					for i, v := range wants {
						if err := s.AddConversion(ids[i], v); err != nil {
							die(70, "AddConversion: %v", err)
						}
					}
					p := s.Payouts()
					enc.Encode(map[string]interface{}{"k": "bank", "bank": bank, "w": wants, "p": []uint64{p[ids[0]], p[ids[1]], p[ids[2]]}})
				}
			}
		}
	}
	rates := []uint64{0, 1, 2, 3, 7}
	for amt := int64(0); amt <= 7; amt++ {
		for y := int64(0); y <= 7; y++ {
			for _, ir := range rates {
				for _, pr := range rates {
					enc.Encode(map[string]interface{}{"k": "refund", "amt": amt, "y": y, "ir": ir, "pr": pr, "v": conversions.Refund(1<<30, amt, y, ir, pr)})
				}
			}
		}
	}
	w.Flush()
	f.Close()
}

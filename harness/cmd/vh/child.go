package main

import (
	"context"
	"encoding/json"
	"errors"
	"flag"
	"fmt"
	"os"
	"sync"
	"syscall"
	"time"

	"github.com/pegnet/pegnetd/config"
	"github.com/pegnet/pegnetd/node"
	"github.com/pegnet/pegnetd/node/pegnet"
	"github.com/spf13/viper"

	"verif/harness/gen"
	"verif/harness/run"
	"verif/harness/sqlwrap"
)

// childReport is what a child prints (one JSON line) when it ends on its own.
type childReport struct {
	Start     uint32   `json:"start"`
	Committed uint32   `json:"committed"`
	K         int      `json:"K"`         // events of the last block's transaction window (begin..commit inclusive)
	Site      string   `json:"site"`      // call site of the injected failure
	Injected  bool     `json:"injected"`  // the fault was injected
	WritesOut []string `json:"writesOut"` // write statements issued outside an open transaction while syncing
	Begins    int      `json:"begins"`
	Rollbacks int      `json:"rollbacks"`
	Refused   string   `json:"refused"`
	Events    []string `json:"events,omitempty"`
}

// cmdChild runs the real node against an already running fake factomd until a height is
// committed; optionally kills itself at a statement boundary or injects one statement failure.
func cmdChild(args []string) {
	fs := flag.NewFlagSet("child", flag.ExitOnError)
	url := fs.String("url", "", "fake factomd url")
	db := fs.String("db", "", "database base path (without .v4)")
	scn := fs.String("scenario", "", "scenario (for the activation schedule)")
	work := fs.String("work", "", "scratch dir")
	until := fs.Uint("until", 0, "exit after this height is committed")
	killAt := fs.Int("kill-at", -1, "SIGKILL self before event k of the transaction window of block <until>")
	killAfter := fs.Bool("kill-after-commit", false, "SIGKILL self right after COMMIT of block <until> returned")
	failAt := fs.Int("fail-at", -1, "make event k of block <until> fail once")
	faultH := fs.Uint("fault-h", 0, "height whose transaction window -kill-at / -fail-at / -events refer to (default: <until>)")
	wal := fs.Bool("wal", false, "WAL mode")
	nohf := fs.Bool("no-hf", false, "disable hard fork check")
	retry := fs.Duration("retry", 5*time.Millisecond, "sync retry period")
	events := fs.Bool("events", false, "report the event kinds of the last block")
	maxWait := fs.Duration("timeout", 60*time.Second, "give up after")
	fs.Parse(args)
	run.InitEnv(*work)
	s, err := gen.Load(*scn)
	if err != nil {
		die(70, "%v", err)
	}
	gen.ApplySchedule(s)
	pegnet.VerifWrapDB = sqlwrap.Wrap
	v := viper.New()
	v.Set(config.Network, "verif")
	v.Set(config.Server, *url)
	v.Set(config.Wallet, "http://127.0.0.1:1/v2")
	v.Set(config.SqliteDBPath, *db)
	v.Set(config.DBlockSyncRetryPeriod, *retry)
	v.Set(config.SQLDBWalMode, *wal)
	v.Set(config.DisableHardForkCheck, *nohf)

	rep := &childReport{WritesOut: []string{}}
	var mu sync.Mutex
	finish := func(code int) {
		mu.Lock()
		b, _ := json.Marshal(rep)
		mu.Unlock()
		fmt.Println(string(b))
		os.Exit(code)
	}
	ctx := context.Background()
	n, err := node.NewPegnetd(ctx, v)
	if err != nil {
		rep.Refused = err.Error()
		finish(3)
	}
	rep.Start = n.Sync.Synced
	rep.Committed = n.Sync.Synced
	target := uint32(*until)
	fh := uint32(*faultH)
	if fh == 0 {
		fh = target
	}
	if target <= rep.Start {
		finish(0)
	}
	// event bookkeeping: the transaction window of the block being applied
	var curH uint32 // height of the open window (0 = none)
	var idx int     // index of the next event in the window
	injected := false
	sqlwrap.Ctl.Hook = func(ev *sqlwrap.Event) error {
		mu.Lock()
		defer mu.Unlock()
		if ev.Kind == "begin" {
			curH = rep.Committed + 1
			idx = 0
			rep.Begins++
			if *events && curH == fh {
				rep.Events = nil
			}
		}
		if curH == 0 {
			if ev.Write && ev.Kind != "prepare" {
				rep.WritesOut = append(rep.WritesOut, ev.SQL)
			}
			return nil
		}
		if !ev.InTx && ev.Kind != "begin" && ev.Write && ev.Kind != "prepare" {
			rep.WritesOut = append(rep.WritesOut, ev.SQL)
		}
		k := idx
		idx++
		if ev.Kind == "rollback" {
			rep.Rollbacks++
			curH = 0
			return nil
		}
		if curH == fh {
			if *events {
				w := ""
				if ev.Write {
					w = "!"
				}
				rep.Events = append(rep.Events, ev.Kind+w)
			}
			if *killAt >= 0 && k == *killAt {
				syscall.Kill(os.Getpid(), syscall.SIGKILL)
				select {}
			}
			if *failAt >= 0 && k == *failAt && !injected {
				injected = true
				rep.Injected = true
				rep.Site = sqlwrap.CallSite(4)
				return errors.New("disk I/O error (injected by verif)")
			}
		}
		if ev.Kind == "commit" {
			rep.K = idx
		}
		return nil
	}
	sqlwrap.Ctl.After = func(ev *sqlwrap.Event) {
		mu.Lock()
		rep.Committed++
		c := rep.Committed
		curH = 0
		mu.Unlock()
		if c == target {
			if *killAfter {
				syscall.Kill(os.Getpid(), syscall.SIGKILL)
				select {}
			}
			finish(0)
		}
	}
	go n.DBlockSync(ctx)
	time.Sleep(*maxWait)
	rep.Refused = "timeout"
	finish(6)
}

package main

import (
	"encoding/json"
	"errors"
	"flag"
	"fmt"
	"os"
	"path/filepath"
	"runtime"
	"strings"
	"sync"
	"sync/atomic"
	"time"

	"github.com/pegnet/pegnetd/config"
	"github.com/pegnet/pegnetd/node"
	"github.com/pegnet/pegnetd/node/pegnet"

	"verif/harness/gen"
	"verif/harness/proj"
	"verif/harness/run"
	"verif/harness/sqlwrap"
)

func inAPIGoroutine() bool {
	buf := make([]byte, 4096)
	n := runtime.Stack(buf, false)
	return strings.Contains(string(buf[:n]), "pegnetd/srv.")
}

// gate is a one-shot blocking point for one class of goroutine.
type gate struct {
	mu      sync.Mutex
	point   string
	api     bool // gate API goroutines (true) or the sync goroutine (false)
	armed   bool
	reached chan struct{}
	release chan struct{}
}

func (g *gate) arm(point string, api bool) {
	g.mu.Lock()
	g.point, g.api, g.armed = point, api, true
	g.reached = make(chan struct{})
	g.release = make(chan struct{})
	g.mu.Unlock()
}

func (g *gate) hook(point string) {
	g.mu.Lock()
	if !g.armed || point != g.point || inAPIGoroutine() != g.api {
		g.mu.Unlock()
		return
	}
	g.armed = false
	reached, release := g.reached, g.release
	g.mu.Unlock()
	close(reached)
	<-release
}

func (g *gate) wait(d time.Duration) bool {
	g.mu.Lock()
	ch := g.reached
	g.mu.Unlock()
	select {
	case <-ch:
		return true
	case <-time.After(d):
		return false
	}
}

func (g *gate) open() {
	g.mu.Lock()
	defer g.mu.Unlock()
	g.armed = false
	select {
	case <-g.release:
	default:
		close(g.release)
	}
}

// cmdAPI runs the C18 experiments: gate-driven schedules and concurrent API load.
func cmdAPI(args []string) {
	fs := flag.NewFlagSet("api", flag.ExitOnError)
	scn := fs.String("scenario", "", "scenario json")
	out := fs.String("out", "", "result trace (ndjson)")
	work := fs.String("work", "", "scratch directory")
	mode := fs.String("mode", "gates", "gates | load")
	at := fs.Uint("at", 0, "height c around which the gate schedules are played (block c+1 must be rated, PIP-10 active)")
	readers := fs.Int("readers", 4, "API client goroutines (load mode)")
	only := fs.String("only", "", "gates mode: run only these schedule numbers (comma separated, e.g. 7); default all")
	fs.Parse(args)
	os.MkdirAll(*work, 0777)
	run.InitEnv(*work)
	s, err := gen.Load(*scn)
	if err != nil {
		die(70, "%v", err)
	}
	c, err := gen.Build(s)
	if err != nil {
		die(70, "build: %v", err)
	}
	f, err := os.Create(*out)
	if err != nil {
		die(70, "%v", err)
	}
	defer f.Close()
	var omu sync.Mutex
	emit := func(v interface{}) {
		b, _ := json.Marshal(v)
		omu.Lock()
		f.Write(append(b, '\n'))
		omu.Unlock()
	}
	emit(map[string]interface{}{"ev": "Start", "mode": *mode, "tip": s.Tip, "name": s.Name})

	// reference: the same chain without any API activity
	ref, err := run.New(c, filepath.Join(*work, "ref", "pegnet"))
	if err != nil {
		die(70, "%v", err)
	}
	if err := ref.StartNode(); err != nil {
		die(70, "ref start: %v", err)
	}
	refDigest := map[uint32]string{}
	for h := config.PegnetActivation + 1; h <= s.Tip; h++ {
		if res := ref.Advance(h, 20*time.Second); !res.OK {
			die(70, "reference run failed at %d: %+v", h, res)
		}
		d, _ := ref.Dump()
		refDigest[h] = proj.Digest(d)
	}
	ref.StopNode()
	ref.Srv.Stop()

	newRunner := func(name string) *run.Runner {
		r, err := run.New(c, filepath.Join(*work, name, "pegnet"))
		if err != nil {
			die(70, "%v", err)
		}
		if err := r.StartNode(); err != nil {
			die(70, "start: %v", err)
		}
		if err := r.StartAPI(); err != nil {
			die(70, "api: %v", err)
		}
		return r
	}
	finish := func(r *run.Runner, from uint32) bool {
		for h := from; h <= s.Tip; h++ {
			if res := r.Advance(h, 20*time.Second); !res.OK {
				return false
			}
		}
		d, _ := r.Dump()
		return proj.Digest(d) == refDigest[s.Tip]
	}

	want := func(n string) bool {
		if *only == "" {
			return true
		}
		for _, x := range strings.Split(*only, ",") {
			if x == n {
				return true
			}
		}
		return false
	}
	if *mode == "gates" {
		cH := uint32(*at)
		// ---- schedule 1: a reader asks for the synced height while the sync goroutine sits between the bump and COMMIT
		if want("1") {
			g := &gate{}
			node.VerifGate = g.hook
			r := newRunner("early")
			for h := config.PegnetActivation + 1; h < cH; h++ {
				r.Advance(h, 20*time.Second)
			}
			g.arm("sync:after-bump", false)
			r.Srv.SetTip(cH)
			feasible := g.wait(5 * time.Second)
			var ss struct {
				Sync int64 `json:"syncheight"`
			}
			r.Call("get-sync-status", nil, &ss)
			committed := r.DBSynced()
			if committed < -1 {
				feasible = false // the database could not be read: no observation
			}
			g.open()
			eq := finish(r, cH)
			emit(map[string]interface{}{"ev": "ApiExp", "schedule": "sync-status-before-commit", "h": cH, "feasible": feasible,
				"seen": ss.Sync, "committed": committed, "equal": eq})
			r.StopAPI()
			r.StopNode()
			r.Srv.Stop()
		}
		// ---- schedule 2: a rich-list reader passes the cache check for height c, is suspended, the sync goroutine
		//      processes block c+1 (asks for c as well), then the reader resumes (gate: data collected, height not yet published)
		if want("2") {
			g := &gate{}
			node.VerifGate = g.hook
			r := newRunner("double")
			for h := config.PegnetActivation + 1; h <= cH; h++ {
				r.Advance(h, 20*time.Second)
			}
			g.arm("avg:collected", true)
			done := make(chan int, 1)
			go func() {
				code, _ := r.Call("get-rich-list", map[string]interface{}{"asset": "PEG", "count": 5}, nil)
				done <- code
			}()
			reached := g.wait(3 * time.Second)
			feasible := reached
			if reached {
				// the sync goroutine now applies block c+1; if the cache is guarded by a lock it cannot get past the reader
				res := r.Advance(cH+1, 2500*time.Millisecond)
				if !res.OK {
					feasible = false
				}
			}
			g.open()
			select {
			case <-done:
			case <-time.After(10 * time.Second):
			}
			eq := finish(r, cH+1)
			emit(map[string]interface{}{"ev": "ApiExp", "schedule": "reader-suspended-in-cache", "h": cH, "feasible": feasible,
				"reachedGate": reached, "seen": 0, "committed": 0, "equal": eq})
			r.StopAPI()
			r.StopNode()
			r.Srv.Stop()
		}
		// ---- schedule 3 (Api.tla SyncCommitFail): COMMIT of block c fails once; a reader asks for the synced height right
		//      after the failed COMMIT returned, before the sync goroutine has handled the error
		if want("3") {
			g := &gate{}
			node.VerifGate = g.hook
			pegnet.VerifWrapDB = sqlwrap.Wrap
			var fmu sync.Mutex
			armed, injected := false, false
			sqlwrap.Ctl.Hook = func(ev *sqlwrap.Event) error {
				fmu.Lock()
				defer fmu.Unlock()
				if armed && !injected && ev.Kind == "commit" {
					injected = true
					return errors.New("database is locked (injected by verif)")
				}
				return nil
			}
			r := newRunner("failcommit")
			for h := config.PegnetActivation + 1; h < cH; h++ {
				r.Advance(h, 20*time.Second)
			}
			fmu.Lock()
			armed = true
			fmu.Unlock()
			g.arm("sync:after-commit", false)
			r.Srv.SetTip(cH)
			feasible := g.wait(5 * time.Second)
			var ss struct {
				Sync int64 `json:"syncheight"`
			}
			r.Call("get-sync-status", nil, &ss)
			committed := r.DBSynced()
			if committed < -1 {
				feasible = false // the database could not be read: no observation
			}
			g.open()
			eq := finish(r, cH)
			fmu.Lock()
			inj := injected
			fmu.Unlock()
			emit(map[string]interface{}{"ev": "ApiExp", "schedule": "sync-status-after-failed-commit", "h": cH, "feasible": feasible && inj,
				"seen": ss.Sync, "committed": committed, "equal": eq})
			r.StopAPI()
			r.StopNode()
			r.Srv.Stop()
			sqlwrap.Ctl.Hook = nil
			pegnet.VerifWrapDB = nil
		}
		// ---- schedules 4a / 4b: a rich-list reader is the first to ask for the averages of the newest committed rated height c
		//      (cache miss); while it is inside the cache function (a) its client hangs up (request context cancelled) resp.
		//      (b) its read of pn_rate fails once. Whatever happens to the request, the sync goroutine must price block c+1
		//      exactly as it would have without the reader.
		if want("4") {
			for _, variant := range []string{"reader-cancelled-in-cache", "reader-db-error-in-cache"} {
				g := &gate{}
				node.VerifGate = g.hook
				var fmu sync.Mutex
				armed, injected := false, false
				if variant == "reader-db-error-in-cache" {
					pegnet.VerifWrapDB = sqlwrap.Wrap
					sqlwrap.Ctl.Hook = func(ev *sqlwrap.Event) error {
						fmu.Lock()
						defer fmu.Unlock()
						if armed && !injected && ev.Kind == "query" && strings.Contains(ev.SQL, "FROM pn_rate WHERE height") && inAPIGoroutine() {
							injected = true
							return errors.New("disk I/O error (injected by verif)")
						}
						return nil
					}
				}
				r := newRunner(variant)
				for h := config.PegnetActivation + 1; h <= cH; h++ {
					r.Advance(h, 20*time.Second)
				}
				fmu.Lock()
				armed = true
				fmu.Unlock()
				g.arm("avg:miss", true)
				cancel, done := r.CallCancel("get-rich-list", map[string]interface{}{"asset": "PEG", "count": 5})
				reached := g.wait(3 * time.Second)
				if reached && variant == "reader-cancelled-in-cache" {
					cancel()
					time.Sleep(150 * time.Millisecond) // let the server notice that the client is gone
				}
				g.open()
				select {
				case <-done:
				case <-time.After(10 * time.Second):
				}
				time.Sleep(50 * time.Millisecond)
				eq := finish(r, cH+1)
				fmu.Lock()
				inj := injected
				fmu.Unlock()
				emit(map[string]interface{}{"ev": "ApiExp", "schedule": variant, "h": cH, "feasible": reached && (inj || variant == "reader-cancelled-in-cache"),
					"reachedGate": reached, "seen": 0, "committed": 0, "equal": eq})
				cancel()
				r.StopAPI()
				r.StopNode()
				r.Srv.Stop()
				sqlwrap.Ctl.Hook = nil
				pegnet.VerifWrapDB = nil
			}
		}
		// ---- schedule 5: no suspension at all - the read methods that use the averages are simply called between blocks
		//      (after block h is committed, before h+1 arrives), for every asset. Reads may leave nothing behind.
		if want("5") {
			r := newRunner("between")
			for h := config.PegnetActivation + 1; h < cH; h++ {
				r.Advance(h, 20*time.Second)
			}
			last := cH + 5
			if last > s.Tip {
				last = s.Tip
			}
			okAll := true
			for h := cH; h <= last; h++ {
				if res := r.Advance(h, 20*time.Second); !res.OK {
					okAll = false
					break
				}
				for _, t := range s.Assets {
					r.Call("get-rich-list", map[string]interface{}{"asset": t, "count": 5}, nil)
				}
				r.Call("get-global-rich-list", map[string]interface{}{"count": 5}, nil)
				r.Call("get-pegnet-rates", map[string]interface{}{"height": h}, nil)
				r.Call("get-pegnet-issuance", nil, nil)
			}
			eq := okAll && finish(r, last)
			emit(map[string]interface{}{"ev": "ApiExp", "schedule": "reads-between-blocks", "h": cH, "feasible": true,
				"seen": 0, "committed": 0, "equal": eq})
			r.StopAPI()
			r.StopNode()
			r.Srv.Stop()
		}
		// ---- schedule 6: the rich-list methods are called while the sync goroutine has applied block c+1 (its own averages request
		//      done) but not yet committed it - the reader still sees c as the tip
		if want("6") {
			g := &gate{}
			node.VerifGate = g.hook
			r := newRunner("midblock")
			for h := config.PegnetActivation + 1; h <= cH; h++ {
				r.Advance(h, 20*time.Second)
			}
			g.arm("sync:before-commit", false)
			r.Srv.SetTip(cH + 1)
			reached := g.wait(5 * time.Second)
			if reached {
				r.Call("get-global-rich-list", map[string]interface{}{"count": 5}, nil)
				for _, t := range s.Assets {
					r.Call("get-rich-list", map[string]interface{}{"asset": t, "count": 3}, nil)
				}
			}
			g.open()
			eq := finish(r, cH+1)
			emit(map[string]interface{}{"ev": "ApiExp", "schedule": "reads-before-commit", "h": cH, "feasible": reached,
				"seen": 0, "committed": 0, "equal": eq})
			r.StopAPI()
			r.StopNode()
			r.Srv.Stop()
		}
		// ---- schedule 7: a rich-list reader that read the synced height c-1 is held back; blocks c and then c+1 arrive; while the sync
		//      goroutine is between its own averages request and the first held batch of block c+1, the stale reader goes on and asks
		//      for the averages of an older height. The batches of block c+1 must be priced with what the sync goroutine had asked for.
		if want("7") {
			gA, gS := &gate{}, &gate{}
			node.VerifGate = func(p string) { gA.hook(p); gS.hook(p) }
			r := newRunner("stale-reader")
			for h := config.PegnetActivation + 1; h < cH; h++ {
				r.Advance(h, 20*time.Second)
			}
			gA.arm("api:height-read", true)
			done := make(chan struct{})
			go func() {
				r.Call("get-rich-list", map[string]interface{}{"asset": "PEG", "count": 5}, nil)
				close(done)
			}()
			reachedA := gA.wait(3 * time.Second)
			okc := r.Advance(cH, 20*time.Second).OK
			gS.arm("hold:batch", false)
			r.Srv.SetTip(cH + 1)
			reachedS := gS.wait(5 * time.Second)
			gA.open()
			select {
			case <-done:
			case <-time.After(10 * time.Second):
			}
			gS.open()
			eq := okc && finish(r, cH+1)
			emit(map[string]interface{}{"ev": "ApiExp", "schedule": "stale-reader-during-holding", "h": cH, "feasible": reachedA && reachedS,
				"seen": 0, "committed": 0, "equal": eq})
			r.StopAPI()
			r.StopNode()
			r.Srv.Stop()
		}
		node.VerifGate = nil
	} else {
		// ---- load: API clients hammer every read method while the chain is synced block by block
		r := newRunner("load")
		var stop int32
		var calls, early int64
		var wg sync.WaitGroup
		keys := c.Keys.Names()
		for i := 0; i < *readers; i++ {
			wg.Add(1)
			go func(i int) {
				defer wg.Done()
				n := 0
				for atomic.LoadInt32(&stop) == 0 {
					n++
					switch (n + i) % 7 {
					case 0:
						var ss struct {
							Sync int64 `json:"syncheight"`
						}
						if code, err := r.Call("get-sync-status", nil, &ss); err == nil && code == 0 {
							// read after the answer: committed can only have grown (-2 = the database could not be read: no observation)
							if db := r.DBSynced(); db >= -1 && ss.Sync > db {
								atomic.AddInt64(&early, 1)
							}
						}
					case 1:
						r.Call("get-rich-list", map[string]interface{}{"asset": "PEG", "count": 10}, nil)
					case 2:
						r.Call("get-global-rich-list", map[string]interface{}{"count": 10}, nil)
					case 3:
						k := c.Keys.ByName[keys[n%len(keys)]]
						r.Call("get-pegnet-balances", map[string]interface{}{"address": k.FA.String()}, nil)
					case 4:
						r.Call("get-transactions", map[string]interface{}{"height": n % int(s.Tip+1)}, nil)
					case 5:
						r.Call("get-pegnet-rates", map[string]interface{}{"height": n % int(s.Tip+1)}, nil)
					case 6:
						r.Call("get-pegnet-issuance", nil, nil)
					}
					atomic.AddInt64(&calls, 1)
				}
			}(i)
		}
		ok := true
		for h := config.PegnetActivation + 1; h <= s.Tip; h++ {
			if res := r.Advance(h, 30*time.Second); !res.OK {
				ok = false
				emit(map[string]interface{}{"ev": "ApiExp", "schedule": "load", "h": h, "feasible": true, "equal": false, "seen": 0, "committed": 0,
					"failure": fmt.Sprintf("%+v", res)})
				break
			}
			time.Sleep(2 * time.Millisecond)
		}
		atomic.StoreInt32(&stop, 1)
		wg.Wait()
		if ok {
			d, _ := r.Dump()
			emit(map[string]interface{}{"ev": "ApiExp", "schedule": "load", "h": s.Tip, "feasible": true, "equal": proj.Digest(d) == refDigest[s.Tip],
				"calls": calls, "seen": early, "committed": 0})
		}
		r.StopAPI()
		r.StopNode()
		r.Srv.Stop()
	}
	emit(map[string]interface{}{"ev": "End"})
}

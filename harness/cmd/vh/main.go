// vh is the harness binary: it runs the real pegnetd node against scenarios and writes
// NDJSON traces for TLC.
package main

import (
	"bufio"
	"encoding/json"
	"flag"
	"fmt"
	"io/ioutil"
	"os"
	"path/filepath"
	"sort"
	"time"

	"github.com/pegnet/pegnetd/config"

	"verif/harness/gen"
	"verif/harness/proj"
	"verif/harness/run"
)

func die(code int, f string, a ...interface{}) {
	fmt.Fprintf(os.Stderr, f+"\n", a...)
	os.Exit(code)
}

func main() {
	if len(os.Args) < 2 {
		die(70, "usage: vh <run|dump> ...")
	}
	switch os.Args[1] {
	case "run":
		cmdRun(os.Args[2:])
	case "child":
		cmdChild(os.Args[2:])
	case "crash":
		cmdCrash(os.Args[2:])
	case "api":
		cmdAPI(os.Args[2:])
	case "consts":
		cmdConsts(os.Args[2:])
	case "convk":
		cmdConvK(os.Args[2:])
	case "bankk":
		cmdBankK(os.Args[2:])
	default:
		die(70, "unknown command %s", os.Args[1])
	}
}

// Control is the scenario's control section as far as `vh run` understands it.
type Control struct {
	Restarts     []uint32 `json:"restarts"` // clean stop + start after these heights
	Wal          bool     `json:"wal"`
	DumpAt       []uint32 `json:"dumpAt"`   // heights at which the full canonical dump digest is recorded
	API          bool     `json:"api"`      // start the real API server and record its answers
	APIAt        []uint32 `json:"apiAt"`    // heights after which the API is queried (default: the tip)
	APILight     []uint32 `json:"apiLight"` // heights after which only the ledger-level read methods are queried (issuance, rates, rich lists, bank)
	AllHist      bool     `json:"allHist"`
	LegacySchema string   `json:"legacySchema"` // "pre-v4" | "pre-v5": the balance table predates those asset lists and is migrated at start-up
}

type traceWriter struct {
	w *bufio.Writer
	f *os.File
}

func (t *traceWriter) emit(v interface{}) {
	b, err := json.Marshal(v)
	if err != nil {
		die(70, "marshal: %v", err)
	}
	t.w.Write(b)
	t.w.WriteByte('\n')
	t.w.Flush()
}

func cmdRun(args []string) {
	fs := flag.NewFlagSet("run", flag.ExitOnError)
	scn := fs.String("scenario", "", "scenario json")
	out := fs.String("out", "", "trace output (ndjson)")
	work := fs.String("work", "", "scratch directory (db, home)")
	dumpOut := fs.String("dump", "", "write the final canonical dump to this file")
	timeout := fs.Duration("block-timeout", 20*time.Second, "per block timeout")
	obsEvery := fs.Bool("obs-all", true, "observe after every block")
	fs.Parse(args)
	if *scn == "" || *out == "" || *work == "" {
		die(70, "run: -scenario, -out and -work are required")
	}
	os.MkdirAll(*work, 0777)
	run.InitEnv(*work)
	s, err := gen.Load(*scn)
	if err != nil {
		die(70, "%v", err)
	}
	var ctl Control
	if len(s.Control) > 0 {
		if err := json.Unmarshal(s.Control, &ctl); err != nil {
			die(70, "control: %v", err)
		}
	}
	c, err := gen.Build(s)
	if err != nil {
		die(70, "build: %v", err)
	}
	r, err := run.New(c, filepath.Join(*work, "db", "pegnet"))
	if err != nil {
		die(70, "runner: %v", err)
	}
	r.Wal = ctl.Wal
	r.LegacySchema = ctl.LegacySchema
	f, err := os.Create(*out)
	if err != nil {
		die(70, "%v", err)
	}
	tw := &traceWriter{w: bufio.NewWriterSize(f, 1<<20), f: f}
	defer f.Close()

	names := c.Keys.Names()
	keyTypes := map[string]string{}
	for _, n := range names {
		keyTypes[n] = c.Keys.ByName[n].Type
	}
	sched := map[string]uint32{}
	for k, v := range s.Sched {
		sched[k] = v
	}
	tw.emit(map[string]interface{}{"ev": "Start", "name": s.Name, "sched": sched, "avgPeriod": s.AvgPeriod,
		"assets": s.Assets, "addrs": names, "keys": keyTypes, "tip": s.Tip, "start": config.PegnetActivation, "allHist": ctl.AllHist})

	if err := r.StartNode(); err != nil {
		tw.emit(map[string]interface{}{"ev": "Refused", "err": err.Error()})
		die(3, "start: %v", err)
	}
	if ctl.API {
		if err := r.StartAPI(); err != nil {
			die(70, "api: %v", err)
		}
	}
	apiAt := map[uint32]bool{}
	if len(ctl.APILight) == 0 {
		apiAt[s.Tip] = true // full observation (statuses, balances, all paged queries): needs allHist
	}
	for _, h := range ctl.APIAt {
		apiAt[h] = true
	}
	apiLight := map[uint32]bool{}
	for _, h := range ctl.APILight {
		apiLight[h] = true
	}
	var seenHashes []string
	seenHash := map[string]bool{}
	restart := map[uint32]bool{}
	for _, h := range ctl.Restarts {
		restart[h] = true
	}
	dumpAt := map[uint32]bool{}
	for _, h := range ctl.DumpAt {
		dumpAt[h] = true
	}
	for h := config.PegnetActivation + 1; h <= s.Tip; h++ {
		res := r.Advance(h, *timeout)
		if !res.OK {
			kind := "Timeout"
			code := 70
			if res.Wedge {
				kind, code = "Wedge", 4
			} else if res.Dead {
				kind, code = "Dead", 5
			}
			tw.emit(map[string]interface{}{"ev": kind, "h": h, "reason": res.Reason, "in": c.In[h]})
			die(code, "%s at height %d: %s", kind, h, res.Reason)
		}
		if *obsEvery {
			o, err := r.Observe(h)
			if err != nil {
				die(70, "observe %d: %v", h, err)
			}
			if dumpAt[h] {
				d, err := r.Dump()
				if err != nil {
					die(70, "dump: %v", err)
				}
				o.Dump = proj.TableDigests(d)
			}
			ev := map[string]interface{}{"ev": "Block", "h": h, "in": c.In[h], "obs": o}
			for _, e := range c.In[h].Entries {
				if !seenHash[e.Hash] {
					seenHash[e.Hash] = true
					seenHashes = append(seenHashes, e.Hash)
				}
			}
			if ctl.API && apiAt[h] {
				var addrs []string
				for n := range s.Keys {
					addrs = append(addrs, n)
				}
				addrs = append(addrs, "M1", "M2", "BURN")
				var hs []uint32
				for x := config.PegnetActivation + 1; x <= h; x++ {
					if in := c.In[x]; len(in.Entries) > 0 || in.OPR.Present {
						hs = append(hs, x)
					}
				}
				ev["api"] = r.ObserveAPI(h, seenHashes, addrs, hs)
			} else if ctl.API && apiLight[h] {
				ev["api"] = r.ObserveAPI(h, nil, nil, nil)
			}
			tw.emit(ev)
		}
		if restart[h] {
			if ctl.API {
				r.StopAPI()
			}
			if err := r.StopNode(); err != nil {
				die(70, "stop: %v", err)
			}
			if err := r.StartNode(); err != nil {
				tw.emit(map[string]interface{}{"ev": "Refused", "h": h, "err": err.Error()})
				die(3, "restart: %v", err)
			}
			if ctl.API {
				if err := r.StartAPI(); err != nil {
					die(70, "api: %v", err)
				}
			}
			tw.emit(map[string]interface{}{"ev": "Restart", "h": h})
		}
	}
	d, err := r.Dump()
	if err != nil {
		die(70, "dump: %v", err)
	}
	if *dumpOut != "" {
		ioutil.WriteFile(*dumpOut, []byte(d), 0666)
	}
	dg := proj.TableDigests(d)
	var tk []string
	for k := range dg {
		tk = append(tk, k)
	}
	sort.Strings(tk)
	tw.emit(map[string]interface{}{"ev": "End", "h": s.Tip, "dump": dg})
	r.StopNode()
	r.Srv.Stop()
}

package main

import (
	"bufio"
	"encoding/json"
	"flag"
	"os"

	"github.com/pegnet/pegnetd/config"
	"github.com/pegnet/pegnetd/node/conversions"
	"verif/harness/gen"
)

// cmdConvK calls the real conversion kernel (conversions.Convert) on a grid of small arguments in the three eras around the
// PIP-10 activation the daemon is built with and writes one line per call (arguments, result). TLC compares every line with
// Ledger.Convert (Trace_Convert.tla).
func cmdConvK(args []string) {
	fs := flag.NewFlagSet("convk", flag.ExitOnError)
	out := fs.String("out", "", "output file (ndjson)")
	big := fs.Bool("big", false, "64-bit arguments (edges of int64 / uint64, overflow branch), numbers written as base-10^4 limbs")
	fs.Parse(args)
	f, err := os.Create(*out)
	if err != nil {
		die(70, "%v", err)
	}
	w := bufio.NewWriter(f)
	enc := json.NewEncoder(w)
	if *big {
		bamts := []int64{1, 100000000, 1 << 31, 1 << 62, 1<<63 - 1}
		brates := []uint64{1, 3, 100000000, 9000000000000000, 1<<64 - 1}
		for era := 0; era <= 1; era++ {
			h := config.PIP10AverageActivation - 1 + uint32(era)
			for _, a := range bamts {
				for _, fr := range brates {
					for _, fa := range brates {
						for _, tr := range brates {
							for _, ta := range brates {
								v, err := conversions.Convert(h, a, fr, fa, tr, ta)
								enc.Encode(map[string]interface{}{"era": era, "amt": gen.Limbs(uint64(a)), "fr": gen.Limbs(fr), "fa": gen.Limbs(fa),
									"tr": gen.Limbs(tr), "ta": gen.Limbs(ta), "ok": err == nil, "v": gen.Limbs(uint64(v))})
							}
						}
					}
				}
			}
		}
		w.Flush()
		f.Close()
		return
	}
	amts := []int64{0, 1, 2, 3, 5, 7, 1000, 46340}
	rates := []uint64{0, 1, 2, 3, 7, 46340}
	act := config.PIP10AverageActivation
	eras := []struct {
		h   uint32
		era int
	}{{act - 1, 0}, {act, 1}, {act + 1, 1}}
	n := 0
	for _, e := range eras {
		for _, a := range amts {
			for _, fr := range rates {
				for _, fa := range rates {
					for _, tr := range rates {
						for _, ta := range rates {
							v, err := conversions.Convert(e.h, a, fr, fa, tr, ta)
							enc.Encode(map[string]interface{}{"era": e.era, "amt": a, "fr": fr, "fa": fa, "tr": tr, "ta": ta, "ok": err == nil, "v": v})
							n++
						}
					}
				}
			}
		}
	}
	w.Flush()
	f.Close()
}

package main

import (
	"bufio"
	"encoding/json"
	"flag"
	"os"

	"github.com/pegnet/pegnetd/config"
	"github.com/pegnet/pegnetd/node/conversions"
)

// cmdConvK calls the real conversion kernel (conversions.Convert) on a grid of small arguments in the three eras around the
// PIP-10 activation the daemon is built with and writes one line per call (arguments, result). TLC compares every line with
// Ledger.Convert (Trace_Convert.tla).
func cmdConvK(args []string) {
	fs := flag.NewFlagSet("convk", flag.ExitOnError)
	out := fs.String("out", "", "output file (ndjson)")
	fs.Parse(args)
	f, err := os.Create(*out)
	if err != nil {
		die(70, "%v", err)
	}
	w := bufio.NewWriter(f)
	enc := json.NewEncoder(w)
	amts := []int64{0, 1, 2, 3, 5, 7, 1000, 46340}
	rates := []uint64{0, 1, 2, 3, 7, 46340}
	act := config.PIP10AverageActivation
	eras := []struct {
		h   uint32
		era int
	}{{act - 1, 0}, {act, 1}, {act + 1, 1}}
	n := 0
	for _, e := range eras {
		for _, a := range amts {
			for _, fr := range rates {
				for _, fa := range rates {
					for _, tr := range rates {
						for _, ta := range rates {
							v, err := conversions.Convert(e.h, a, fr, fa, tr, ta)
							enc.Encode(map[string]interface{}{"era": e.era, "amt": a, "fr": fr, "fa": fa, "tr": tr, "ta": ta, "ok": err == nil, "v": v})
							n++
						}
					}
				}
			}
		}
	}
	w.Flush()
	f.Close()
}

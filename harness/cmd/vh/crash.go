package main

import (
	"bytes"
	"encoding/json"
	"flag"
	"fmt"
	"io"
	"os"
	"os/exec"
	"path/filepath"
	"sort"
	"strconv"
	"strings"
	"sync"
	"sync/atomic"
	"syscall"
	"time"

	"github.com/pegnet/pegnetd/config"

	"verif/harness/ff"
	"verif/harness/gen"
	"verif/harness/proj"
	"verif/harness/run"
)

func copyFile(src, dst string) error {
	in, err := os.Open(src)
	if err != nil {
		return err
	}
	defer in.Close()
	os.MkdirAll(filepath.Dir(dst), 0777)
	out, err := os.Create(dst)
	if err != nil {
		return err
	}
	defer out.Close()
	_, err = io.Copy(out, in)
	return err
}

type childOut struct {
	rc     int
	killed bool
	rep    childReport
	stderr string
}

func runChild(self string, args ...string) childOut {
	cmd := exec.Command(self, append([]string{"child"}, args...)...)
	var so, se bytes.Buffer
	cmd.Stdout, cmd.Stderr = &so, &se
	err := cmd.Run()
	o := childOut{stderr: se.String()}
	if len(o.stderr) > 1500 {
		o.stderr = o.stderr[len(o.stderr)-1500:]
	}
	if err != nil {
		if ee, ok := err.(*exec.ExitError); ok {
			if ws, ok := ee.Sys().(syscall.WaitStatus); ok && ws.Signaled() {
				o.killed = ws.Signal() == syscall.SIGKILL
				o.rc = 128 + int(ws.Signal())
			} else {
				o.rc = ee.ExitCode()
			}
		} else {
			o.rc = 70
		}
	}
	lines := strings.Split(strings.TrimSpace(so.String()), "\n")
	if len(lines) > 0 {
		json.Unmarshal([]byte(lines[len(lines)-1]), &o.rep)
	}
	return o
}

// refRun is the uninterrupted reference run: per-height dump digests and DB copies.
type refRun struct {
	digest map[uint32]string            // whole-dump digest per height
	tables map[uint32]map[string]string // per table
	dbAt   map[uint32]string            // db base path of the copy taken after height h
	// the uninterrupted run could not apply this block (0 = ran to the tip); experiments are limited to the blocks below it
	stalledAt uint32
	stallWhy  string
}

func reference(c *gen.Chain, r *run.Runner, copyAt map[uint32]bool, dir string, timeout time.Duration) (*refRun, error) {
	ref := &refRun{digest: map[uint32]string{}, tables: map[uint32]map[string]string{}, dbAt: map[uint32]string{}}
	if err := r.StartNode(); err != nil {
		return nil, err
	}
	for h := config.PegnetActivation + 1; h <= c.Scn.Tip; h++ {
		res := r.Advance(h, timeout)
		if !res.OK {
			// the fault-free run cannot apply block h. If the database nevertheless differs from what it held after
			// block h-1, part of block h has been written outside the block's transaction: report that, it is a verdict
			if prev, ok := ref.digest[h-1]; ok {
				if d, err := r.Dump(); err == nil && proj.Digest(d) != prev {
					var diff []string
					td := proj.TableDigests(d)
					for t, v := range ref.tables[h-1] {
						if td[t] != v {
							diff = append(diff, t)
						}
					}
					sort.Strings(diff)
					return nil, &refPartial{h: h, synced: r.DBSynced(), diff: diff, why: fmt.Sprintf("%+v", res)}
				}
			}
			if h-1 > config.PegnetActivation+1 {
				// evaluate what can be evaluated: the blocks below the one that cannot be applied
				ref.stalledAt = h
				ref.stallWhy = fmt.Sprintf("%+v", res)
				// let the daemon find nothing to do before stopping it: cancelling it in the middle of a block makes
				// it exit the whole process (Rollback after a cancelled BeginTx returns ErrTxDone -> Fatal)
				r.Srv.SetTip(h - 1)
				seq0 := r.Srv.Seq()
				for deadline := time.Now().Add(60 * time.Second); time.Now().Before(deadline); time.Sleep(20 * time.Millisecond) {
					polls := 0
					for _, q := range r.Srv.Requests() {
						if q.Seq > seq0 && q.Method == "heights" {
							polls++
						}
					}
					if polls >= 3 {
						break
					}
				}
				return ref, r.StopNode()
			}
			return nil, fmt.Errorf("reference run failed at %d: %+v", h, res)
		}
		d, err := r.Dump()
		if err != nil {
			return nil, err
		}
		ref.digest[h] = proj.Digest(d)
		ref.tables[h] = proj.TableDigests(d)
		if copyAt[h] {
			base := filepath.Join(dir, fmt.Sprintf("ref-%d", h), "pegnet")
			if err := copyFile(r.DBFile(), base+".v4"); err != nil {
				return nil, err
			}
			ref.dbAt[h] = base
		}
	}
	return ref, r.StopNode()
}

func inspect(dbBase string) (synced int64, digest string, syncverOK bool, err error) {
	d, err := proj.Open(dbBase + ".v4")
	if err != nil {
		return -2, "", false, err
	}
	defer d.Close()
	synced, err = d.Synced()
	if err != nil {
		return -2, "", false, err
	}
	dump, err := d.CanonicalDump()
	if err != nil {
		return synced, "", false, err
	}
	sv, err := d.SyncVersions()
	if err != nil {
		return synced, "", false, err
	}
	// one version row per applied height: contiguous start+1..synced
	syncverOK = true
	if len(sv) > 0 {
		var hs []int64
		for h := range sv {
			hs = append(hs, h)
		}
		sort.Slice(hs, func(i, j int) bool { return hs[i] < hs[j] })
		for i := range hs {
			if hs[i] != hs[0]+int64(i) {
				syncverOK = false
			}
		}
		if hs[len(hs)-1] != synced {
			syncverOK = false
		}
	} else if synced > int64(config.PegnetActivation) {
		syncverOK = false
	}
	return synced, proj.Digest(dump), syncverOK, nil
}

// refPartial: the uninterrupted run stalled at block h with effects of that block already in the database.
type refPartial struct {
	h      uint32
	synced int64
	diff   []string
	why    string
}

func (e *refPartial) Error() string {
	return fmt.Sprintf("reference run stalled at %d with part of the block committed (tables %v, synced %d): %s", e.h, e.diff, e.synced, e.why)
}

// cmdCrash enumerates crash points (C02) or single statement / request faults (C10).
func cmdCrash(args []string) {
	fs := flag.NewFlagSet("crash", flag.ExitOnError)
	scn := fs.String("scenario", "", "scenario json")
	out := fs.String("out", "", "result trace (ndjson)")
	work := fs.String("work", "", "scratch directory")
	blocks := fs.String("blocks", "", "comma separated heights to enumerate completely")
	stride := fs.Int("stride", 0, "additionally every stride-th event of every other non-empty block (0 = off)")
	mode := fs.String("mode", "crash", "crash | stmtfault | reqfault")
	par := fs.Int("par", 16, "parallel experiments")
	wal := fs.Bool("wal", false, "WAL journal mode")
	offset := fs.Int("offset", 0, "stride offset (seed)")
	edges := fs.Bool("edges", false, "always include the first three and the last four events of every block (BEGIN .. COMMIT)")
	span := fs.Int("span", 0, "resume only this many blocks past the experiment's height (0 = to the tip)")
	fs.Parse(args)
	if *scn == "" || *out == "" || *work == "" {
		die(70, "crash: -scenario, -out, -work required")
	}
	self, _ := os.Executable()
	os.MkdirAll(*work, 0777)
	run.InitEnv(*work)
	s, err := gen.Load(*scn)
	if err != nil {
		die(70, "%v", err)
	}
	c, err := gen.Build(s)
	if err != nil {
		die(70, "build: %v", err)
	}
	r, err := run.New(c, filepath.Join(*work, "refdb", "pegnet"))
	if err != nil {
		die(70, "%v", err)
	}
	r.Wal = *wal
	full := map[uint32]bool{}
	for _, x := range strings.Split(*blocks, ",") {
		if x == "" {
			continue
		}
		v, err := strconv.Atoi(x)
		if err != nil {
			die(70, "bad -blocks")
		}
		full[uint32(v)] = true
	}
	// heights with content
	var content []uint32
	for h := config.PegnetActivation + 1; h <= s.Tip; h++ {
		in := c.In[h]
		if in.OPR.Present || in.SPR.Present || len(in.Entries) > 0 || len(in.Burns) > 0 || full[h] {
			content = append(content, h)
		}
	}
	copyAt := map[uint32]bool{}
	for _, h := range content {
		if full[h] || *stride > 0 || *edges {
			copyAt[h-1] = true
		}
	}
	ref, err := reference(c, r, copyAt, *work, 20*time.Second)
	if err != nil {
		if rp, ok := err.(*refPartial); ok {
			f, ferr := os.Create(*out)
			if ferr != nil {
				die(70, "%v", ferr)
			}
			for _, v := range []interface{}{
				map[string]interface{}{"ev": "Start", "mode": *mode, "tip": s.Tip, "start": config.PegnetActivation, "name": s.Name, "wal": *wal},
				map[string]interface{}{"ev": "RefPartial", "h": rp.h, "synced": rp.synced, "diffTables": rp.diff, "why": rp.why},
				map[string]interface{}{"ev": "End", "experiments": 0}} {
				b, _ := json.Marshal(v)
				f.Write(append(b, '\n'))
			}
			f.Close()
			r.StopNode()
			r.Srv.Stop()
			return
		}
		die(70, "reference: %v", err)
	}
	if copyAt[config.PegnetActivation] {
		ref.dbAt[config.PegnetActivation] = filepath.Join(*work, "ref-fresh", "pegnet")
	}
	if ref.stalledAt > 0 {
		s.Tip = ref.stalledAt - 1
		var c2 []uint32
		for _, h := range content {
			if h < ref.stalledAt {
				c2 = append(c2, h)
			}
		}
		content = c2
	}
	r.Srv.SetTip(s.Tip)
	// per-client request counters and one-shot request faults (mode reqfault)
	var fmu sync.Mutex
	reqCount := map[string]int{}
	failReq := map[string]int{}
	r.Srv.Fault = func(q ff.Request) string {
		if q.Client == "" {
			return ""
		}
		fmu.Lock()
		defer fmu.Unlock()
		i := reqCount[q.Client]
		reqCount[q.Client] = i + 1
		if k, ok := failReq[q.Client]; ok && k == i {
			delete(failReq, q.Client)
			return "injected upstream failure (verif)"
		}
		return ""
	}
	f, err := os.Create(*out)
	if err != nil {
		die(70, "%v", err)
	}
	defer f.Close()
	var omu sync.Mutex
	emit := func(v interface{}) {
		b, _ := json.Marshal(v)
		omu.Lock()
		f.Write(append(b, '\n'))
		omu.Unlock()
	}
	emit(map[string]interface{}{"ev": "Start", "mode": *mode, "tip": s.Tip, "start": config.PegnetActivation, "name": s.Name, "wal": *wal})
	if ref.stalledAt > 0 {
		emit(map[string]interface{}{"ev": "RefStalled", "h": ref.stalledAt, "why": ref.stallWhy})
	}

	common := func(db string, until uint32, client string) []string {
		a := []string{"-url", fmt.Sprintf("%s?tip=%d&client=%s", r.Srv.URL, until, client), "-db", db, "-scenario", *scn,
			"-work", filepath.Join(*work, "home"), "-until", fmt.Sprint(until)}
		if *wal {
			a = append(a, "-wal")
		}
		return a
	}
	type exp struct {
		h     uint32
		k     int
		after bool
		K     int
	}
	var exps []exp
	// count events per block
	for _, h := range content {
		if !(full[h] || *stride > 0 || *edges) {
			continue
		}
		base := ref.dbAt[h-1]
		tmp := filepath.Join(*work, fmt.Sprintf("count-%d", h), "pegnet")
		if h-1 > config.PegnetActivation {
			if err := copyFile(base+".v4", tmp+".v4"); err != nil {
				die(70, "copy: %v", err)
			}
		}
		o := runChild(self, append(common(tmp, h, "count"), "-events")...)
		if o.rc != 0 || o.rep.Committed != h {
			die(70, "event count run failed for height %d: rc=%d %s %+v", h, o.rc, o.stderr, o.rep)
		}
		K := o.rep.K
		if *mode == "reqfault" {
			fmu.Lock()
			K = reqCount["count"]
			reqCount["count"] = 0
			fmu.Unlock()
		}
		emit(map[string]interface{}{"ev": "BlockEvents", "h": h, "K": K, "writesOut": o.rep.WritesOut, "begins": o.rep.Begins})
		os.RemoveAll(filepath.Dir(tmp))
		for k := 0; k < K; k++ {
			if full[h] || (*stride > 0 && (k+*offset)%*stride == 0) || (*edges && (k < 3 || k >= K-4)) {
				exps = append(exps, exp{h: h, k: k, K: K})
			}
		}
		if *mode == "crash" {
			exps = append(exps, exp{h: h, k: K, after: true, K: K})
		}
	}
	sem := make(chan struct{}, *par)
	var wg sync.WaitGroup
	r.Srv.SetKeepLog(false) // the request log is only needed by the reference run's wedge detector
	var failed int32        // experiments that ended badly so far: after 24 the verdict is clear, the rest is skipped
	skipped := 0
	for i, e := range exps {
		if atomic.LoadInt32(&failed) >= 24 {
			skipped++
			continue
		}
		wg.Add(1)
		sem <- struct{}{}
		go func(i int, e exp) {
			defer wg.Done()
			defer func() { <-sem }()
			dir := filepath.Join(*work, fmt.Sprintf("exp-%d", i))
			db := filepath.Join(dir, "pegnet")
			defer os.RemoveAll(dir)
			if e.h-1 > config.PegnetActivation {
				if err := copyFile(ref.dbAt[e.h-1]+".v4", db+".v4"); err != nil {
					emit(map[string]interface{}{"ev": "Infra", "err": err.Error()})
					return
				}
			}
			res := map[string]interface{}{"h": e.h, "k": e.k, "K": e.K, "after": e.after}
			// a faulted daemon keeps running: the same process goes on for two more blocks, so that what it
			// holds in memory after the failure (the height to apply next) shows in the database
			cont := e.h + 2
			if cont > s.Tip {
				cont = s.Tip
			}
			contRC := 0
			switch *mode {
			case "crash":
				a := common(db, e.h, fmt.Sprintf("c%d", i))
				if e.after {
					a = append(a, "-kill-after-commit")
				} else {
					a = append(a, "-kill-at", fmt.Sprint(e.k))
				}
				o := runChild(self, a...)
				res["ev"] = "CrashExp"
				res["killed"] = o.killed
				if !o.killed {
					res["childrc"] = o.rc
					res["childerr"] = o.stderr
				}
				synced, dg, svok, err := inspect(db)
				if err != nil && e.h-1 == config.PegnetActivation && !fileExists(db+".v4") {
					synced, dg, svok, err = int64(config.PegnetActivation), "", true, nil
				}
				if err != nil {
					res["ev"] = "Infra"
					res["err"] = err.Error()
					emit(res)
					return
				}
				res["synced"] = synced
				res["syncverOK"] = svok
				m := int64(-1)
				for _, cand := range []int64{synced, synced - 1, synced + 1} {
					if cand >= 0 && ref.digest[uint32(cand)] == dg && dg != "" {
						m = cand
						break
					}
				}
				if synced <= int64(config.PegnetActivation) || (synced == -1) {
					// fresh / empty database: matches the initial state
					if e.h-1 == config.PegnetActivation {
						m = synced
					}
				}
				res["matches"] = m
			case "reqfault":
				cl := fmt.Sprintf("q%d", i)
				fmu.Lock()
				failReq[cl] = e.k
				fmu.Unlock()
				o := runChild(self, append(common(db, cont, cl), "-fault-h", fmt.Sprint(e.h), "-timeout", "20s")...)
				contRC = o.rc
				res["ev"] = "FaultExp"
				res["kind"] = "req"
				res["childrc"] = o.rc
				fmu.Lock()
				_, pending := failReq[cl]
				delete(failReq, cl)
				fmu.Unlock()
				res["injected"] = !pending
				res["site"] = "factomd-request"
				if o.rc != 0 {
					res["childerr"] = o.stderr
				}
			case "stmtfault":
				o := runChild(self, append(common(db, cont, fmt.Sprintf("s%d", i)), "-fault-h", fmt.Sprint(e.h), "-fail-at", fmt.Sprint(e.k), "-timeout", "20s")...)
				contRC = o.rc
				res["ev"] = "FaultExp"
				res["kind"] = "stmt"
				res["childrc"] = o.rc
				res["site"] = o.rep.Site
				res["injected"] = o.rep.Injected
				res["rollbacks"] = o.rep.Rollbacks
				if o.rc != 0 {
					res["childerr"] = o.stderr
				}
			}
			if *mode != "crash" {
				// the database the faulted process leaves behind: whole blocks only, one version row per height; if the
				// process survived the fault, exactly the blocks up to where it was told to stop
				cs, cdg, csv, cerr := inspect(db)
				res["contTo"] = cont
				res["contSynced"] = cs
				ok := cerr == nil && csv && cs >= 0 && cdg == ref.digest[uint32(cs)]
				if contRC == 0 {
					ok = ok && cs == int64(cont)
				}
				if cerr != nil && e.h-1 == config.PegnetActivation && !fileExists(db+".v4") {
					ok = contRC != 0
				}
				res["contOK"] = ok
			}
			// resume (a supervisor would restart a dead daemon): to the tip, or a few blocks on
			target := s.Tip
			if *span > 0 && e.h+uint32(*span) < s.Tip {
				target = e.h + uint32(*span)
			}
			res["resumeTo"] = target
			o2 := runChild(self, append(common(db, target, fmt.Sprintf("r%d", i)), "-timeout", "60s")...)
			res["resumed"] = o2.rc == 0 && o2.rep.Committed == target
			if o2.rc != 0 {
				res["resumeerr"] = fmt.Sprintf("rc=%d %s %s", o2.rc, o2.rep.Refused, o2.stderr)
			}
			_, dg2, svok2, err := inspect(db)
			res["equal"] = err == nil && dg2 == ref.digest[target]
			res["syncverOKAtTip"] = svok2
			if err == nil && dg2 != ref.digest[target] {
				// which tables differ
				d, _ := proj.Open(db + ".v4")
				if d != nil {
					dump, _ := d.CanonicalDump()
					d.Close()
					td := proj.TableDigests(dump)
					var diff []string
					for t, v := range ref.tables[target] {
						if td[t] != v {
							diff = append(diff, t)
						}
					}
					sort.Strings(diff)
					res["diffTables"] = diff
				}
			}
			if eq, _ := res["equal"].(bool); !eq {
				atomic.AddInt32(&failed, 1)
			} else if ok, has := res["contOK"].(bool); has && !ok {
				atomic.AddInt32(&failed, 1)
			}
			emit(res)
		}(i, e)
	}
	wg.Wait()
	emit(map[string]interface{}{"ev": "End", "experiments": len(exps) - skipped, "skippedAfterFailures": skipped})
	r.Srv.Stop()
}

func fileExists(p string) bool {
	_, err := os.Stat(p)
	return err == nil
}

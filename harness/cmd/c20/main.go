// Command c20 replays the abstract cases enumerated by TLC (tla/MC_Codec.tla) and the
// seeded extra cases of checks/c20.py into the REAL code of /repo and records what the
// code did.  It contains no oracle: the verdict is computed by TLC (tla/Trace_Codec.tla)
// from the abstract case that is copied verbatim into every observation line.
//
//	(a) cmd.FactoidToFactoshi            on the rendered decimal string
//	(b) fat2.NewTransactionBatch         on a signed entry carrying the rendered JSON,
//	    plus TransactionBatch.UnmarshalJSON / ValidData, the re-encoding through
//	    TransactionBatch.Sign (json.Marshal of the decoded batch) and the second decode.
package main

import (
	"bufio"
	"bytes"
	"crypto/sha256"
	"encoding/json"
	"flag"
	"fmt"
	"os"
	"runtime"
	"strconv"
	"strings"
	"sync"

	"github.com/Factom-Asset-Tokens/factom"
	"github.com/Factom-Asset-Tokens/factom/fat103"
	"github.com/pegnet/pegnetd/cmd"
	"github.com/pegnet/pegnetd/fat/fat2"
)

// ---------------------------------------------------------------- abstract cases

type amtCase struct {
	ID  int             `json:"id"`
	Tok json.RawMessage `json:"tok"`
}

type amt struct {
	F string `json:"f"`
	D []int  `json:"d"`
}
type trShape struct {
	Keys []string `json:"keys"`
	Addr string   `json:"addr"`
	Amt  amt      `json:"amt"`
}
type txShape struct {
	TKeys []string  `json:"tkeys"`
	IKeys []string  `json:"ikeys"`
	IAddr string    `json:"iaddr"`
	IType string    `json:"itype"`
	IAmt  amt       `json:"iamt"`
	Trs   []trShape `json:"trs"`
	Conv  string    `json:"conv"`
}
type shape struct {
	BKeys []string  `json:"bkeys"`
	Ver   string    `json:"ver"`
	Ws    string    `json:"ws"`
	UKind string    `json:"ukind"`
	Txs   []txShape `json:"txs"`
}
type batchCase struct {
	ID    int             `json:"id"`
	Shape json.RawMessage `json:"shape"`
}

// ---------------------------------------------------------------- observations

type amtObs struct {
	OK bool  `json:"ok"`
	V  []int `json:"v"`
}
type amtLine struct {
	ID  int             `json:"id"`
	Tok json.RawMessage `json:"tok"`
	Obs amtObs          `json:"obs"`
}

type trDec struct {
	Addr string `json:"addr"`
	Amt  []int  `json:"amt"`
}
type txDec struct {
	IAddr string  `json:"iaddr"`
	IType string  `json:"itype"`
	IAmt  []int   `json:"iamt"`
	Trs   []trDec `json:"trs"`
	Conv  string  `json:"conv"`
	Meta  string  `json:"meta"`
}
type batchObs struct {
	OK      bool    `json:"ok"`
	ParseOK bool    `json:"parse_ok"`
	DataOK  bool    `json:"data_ok"`
	Reenc   bool    `json:"reenc"`
	OK2     bool    `json:"ok2"`
	Dec1    []txDec `json:"dec1"`
	Dec2    []txDec `json:"dec2"`
}
type batchLine struct {
	ID    int             `json:"id"`
	Shape json.RawMessage `json:"shape"`
	Obs   batchObs        `json:"obs"`
}

// human readable side file (never read by TLC)
type detail struct {
	Kind  string `json:"kind"`
	ID    int    `json:"id"`
	Text  string `json:"text"`
	OK    bool   `json:"ok"`
	Value string `json:"value,omitempty"`
	Err   string `json:"err,omitempty"`
	Reenc string `json:"reencoded,omitempty"`
	Err2  string `json:"err2,omitempty"`
}

// ---------------------------------------------------------------- rendering

var tokText = map[int]string{10: ".", 11: "-", 12: "+", 13: " ", 14: "e", 15: "x", 16: "\n"}

func renderTokens(tok []int) (string, error) {
	var sb strings.Builder
	for _, t := range tok {
		switch {
		case t >= 0 && t <= 9:
			sb.WriteByte(byte('0' + t))
		default:
			s, ok := tokText[t]
			if !ok {
				return "", fmt.Errorf("unknown token %d", t)
			}
			sb.WriteString(s)
		}
	}
	return sb.String(), nil
}

func digitsOf(v uint64) []int {
	s := strconv.FormatUint(v, 10)
	d := make([]int, len(s))
	for i := range s {
		d[i] = int(s[i] - '0')
	}
	return d
}

func digitText(d []int) string {
	var sb strings.Builder
	for _, x := range d {
		sb.WriteByte(byte('0' + x))
	}
	return sb.String()
}

func seedKey(seed string) factom.FsAddress {
	h := sha256.Sum256([]byte("verif-c20-" + seed))
	var fs factom.FsAddress
	copy(fs[:], h[:])
	return fs
}

var (
	keyA  = seedKey("A")
	keyB  = seedKey("B")
	addrA = keyA.FAAddress().String()
	addrB = keyB.FAAddress().String()
	addrZ = factom.FsAddress{}.FAAddress().String() // the coinbase / burn address
	// same length, broken checksum
	addrBad = func() string {
		b := []byte(addrA)
		if b[len(b)-1] == 'x' {
			b[len(b)-1] = 'y'
		} else {
			b[len(b)-1] = 'x'
		}
		return string(b)
	}()
	chainID = factom.Bytes32(sha256.Sum256([]byte("verif-c20-chain")))
)

const memo = `{"memo":"x y"}`

func renderAddr(a string) string {
	switch a {
	case "A":
		return `"` + addrA + `"`
	case "B":
		return `"` + addrB + `"`
	case "Z":
		return `"` + addrZ + `"`
	case "BAD":
		return `"` + addrBad + `"`
	}
	return `"` + a + `"`
}

func nameAddr(a factom.FAAddress) string {
	switch s := a.String(); s {
	case addrA:
		return "A"
	case addrB:
		return "B"
	case addrZ:
		return "Z"
	default:
		return s
	}
}

func renderAmt(a amt) string {
	ds := digitText(a.D)
	switch a.F {
	case "int":
		return ds
	case "neg":
		return "-" + ds
	case "frac":
		return ds + ".5"
	case "quoted":
		return `"` + ds + `"`
	case "exp":
		return ds + "e0"
	case "lz":
		return "0" + ds
	}
	return `"?` + a.F + `"`
}

func renderTicker(t string) string {
	if t == "num" {
		return "2"
	}
	if strings.HasPrefix(t, "esc:") && len(t) > 6 {
		// the same ticker text spelled with a JSON escape: decodes to a known ticker, is not the canonical form
		x := t[4:]
		return `"` + x[:1] + fmt.Sprintf("\\u%04x", x[1]) + x[2:] + `"`
	}
	return `"` + t + `"`
}

func unknownMember(ukind string) string {
	switch ukind {
	case "pad28": // ,"<23 a>":0  is 28 bytes
		return `"` + strings.Repeat("a", 23) + `":0`
	case "pad13": // ,"<8 a>":0   is 13 bytes
		return `"` + strings.Repeat("a", 8) + `":0`
	}
	return `"x":0`
}

// object renders the members in the given order; the value of a member is chosen by
// the lower-cased key name, the key text itself is emitted verbatim.
func object(keys []string, ukind string, val func(lower string) string) string {
	parts := make([]string, 0, len(keys))
	for _, k := range keys {
		if k == "unknown" {
			parts = append(parts, unknownMember(ukind))
			continue
		}
		parts = append(parts, `"`+k+`":`+val(strings.ToLower(k)))
	}
	return "{" + strings.Join(parts, ",") + "}"
}

func renderTr(t trShape, ukind string) string {
	return object(t.Keys, ukind, func(k string) string {
		switch k {
		case "address":
			return renderAddr(t.Addr)
		case "amount":
			return renderAmt(t.Amt)
		}
		return "0"
	})
}

func renderTx(tx txShape, ukind string) string {
	return object(tx.TKeys, ukind, func(k string) string {
		switch k {
		case "input":
			return object(tx.IKeys, ukind, func(k string) string {
				switch k {
				case "address":
					return renderAddr(tx.IAddr)
				case "amount":
					return renderAmt(tx.IAmt)
				case "type":
					return renderTicker(tx.IType)
				}
				return "0"
			})
		case "transfers":
			parts := make([]string, len(tx.Trs))
			for i, t := range tx.Trs {
				parts[i] = renderTr(t, ukind)
			}
			return "[" + strings.Join(parts, ",") + "]"
		case "conversion":
			return renderTicker(tx.Conv)
		case "metadata":
			return memo
		}
		return "0"
	})
}

func renderShape(s shape) []byte {
	txt := object(s.BKeys, s.UKind, func(k string) string {
		switch k {
		case "version":
			switch s.Ver {
			case "str":
				return `"1"`
			default:
				return s.Ver
			}
		case "transactions":
			parts := make([]string, len(s.Txs))
			for i, tx := range s.Txs {
				parts[i] = renderTx(tx, s.UKind)
			}
			return "[" + strings.Join(parts, ",") + "]"
		case "metadata":
			return memo
		}
		return "0"
	})
	if s.Ws == "spaced" {
		var buf bytes.Buffer
		if err := json.Indent(&buf, []byte(txt), " ", "\t "); err == nil {
			return append([]byte(" \n"), append(buf.Bytes(), '\n', ' ')...)
		}
		// not even JSON (e.g. a leading zero): spaces only where they are harmless
		return []byte(" " + strings.Replace(txt, ",", " ,\n", -1) + " ")
	}
	return []byte(txt)
}

// ---------------------------------------------------------------- running the real code

func normMeta(m interface{}) string {
	if m == nil {
		return "none"
	}
	raw, ok := m.(json.RawMessage)
	if !ok {
		b, _ := json.Marshal(m)
		raw = b
	}
	switch string(raw) {
	case "", "null": // an absent member and an explicit null carry the same (no) metadata
		return "none"
	case memo:
		return "memo"
	}
	return string(raw)
}

func normTxs(txs []fat2.Transaction) []txDec {
	out := make([]txDec, len(txs))
	for i, tx := range txs {
		d := txDec{
			IAddr: nameAddr(tx.Input.Address),
			IType: tx.Input.Type.String(),
			IAmt:  digitsOf(tx.Input.Amount),
			Trs:   make([]trDec, len(tx.Transfers)),
			Meta:  normMeta(tx.Metadata),
		}
		if tx.Conversion != fat2.PTickerInvalid {
			d.Conv = tx.Conversion.String()
		}
		for j, tr := range tx.Transfers {
			d.Trs[j] = trDec{Addr: nameAddr(tr.Address), Amt: digitsOf(tr.Amount)}
		}
		out[i] = d
	}
	return out
}

const height = 300000 // above every FAT-2 activation of the live network; RCD-1 signatures

// signersFor returns the keys of every distinct input address of the shape (first appearance
// first), so that the signature part of the entry never is the reason for a refusal: A, B and
// also Z - the burn address is the address of the all-zero private key, anybody can sign for it.
func signersFor(s shape) []factom.RCDSigner {
	var out []factom.RCDSigner
	seen := map[string]bool{}
	for _, tx := range s.Txs {
		if seen[tx.IAddr] {
			continue
		}
		seen[tx.IAddr] = true
		switch tx.IAddr {
		case "A":
			out = append(out, keyA)
		case "B":
			out = append(out, keyB)
		case "Z":
			out = append(out, factom.FsAddress{})
		}
	}
	if len(out) == 0 {
		out = append(out, keyA)
	}
	return out
}

func newEntry(content []byte, k []factom.RCDSigner) factom.Entry {
	cid := chainID
	e := factom.Entry{ChainID: &cid, Content: content}
	return fat103.Sign(e, k...) // sets the time salt and Timestamp = now
}

func runBatch(c batchCase) (rline batchLine, rdet detail, rerr error) {
	var s shape
	if err := json.Unmarshal(c.Shape, &s); err != nil {
		return batchLine{}, detail{}, fmt.Errorf("case %d: %v", c.ID, err)
	}
	content := renderShape(s)
	key := signersFor(s)
	line := batchLine{ID: c.ID, Shape: c.Shape}
	det := detail{Kind: "batch", ID: c.ID, Text: string(content)}
	line.Obs.Dec1, line.Obs.Dec2 = []txDec{}, []txDec{}

	// a panic of the code under test is recorded as a refusal (plus a note), not hidden
	defer func() {
		if r := recover(); r != nil {
			rline, rdet = line, det
			rline.Obs = batchObs{Dec1: []txDec{}, Dec2: []txDec{}}
			rdet.OK = false
			rdet.Err = fmt.Sprintf("PANIC: %v", r)
			rerr = nil
		}
	}()

	var probe fat2.TransactionBatch
	if err := probe.UnmarshalJSON(content); err == nil {
		line.Obs.ParseOK = true
		line.Obs.DataOK = probe.ValidData() == nil
	}

	b, err := fat2.NewTransactionBatch(newEntry(content, key), height)
	if err != nil {
		det.Err = err.Error()
		return line, det, nil
	}
	line.Obs.OK, det.OK = true, true
	line.Obs.Dec1 = normTxs(b.Transactions)

	// re-encode with the code's own encoder (json.Marshal of the decoded batch + signature)
	e2, err := b.Sign(key...)
	if err != nil {
		det.Err2 = "re-encode: " + err.Error()
		return line, det, nil
	}
	line.Obs.Reenc = true
	det.Reenc = string(e2.Content)
	b2, err := fat2.NewTransactionBatch(e2, height)
	if err != nil {
		det.Err2 = "second decode: " + err.Error()
		return line, det, nil
	}
	line.Obs.OK2 = true
	line.Obs.Dec2 = normTxs(b2.Transactions)
	return line, det, nil
}

func runAmt(c amtCase) (rline amtLine, rdet detail, rerr error) {
	var tok []int
	if err := json.Unmarshal(c.Tok, &tok); err != nil {
		return amtLine{}, detail{}, fmt.Errorf("case %d: %v", c.ID, err)
	}
	text, err := renderTokens(tok)
	if err != nil {
		return amtLine{}, detail{}, fmt.Errorf("case %d: %v", c.ID, err)
	}
	line := amtLine{ID: c.ID, Tok: c.Tok, Obs: amtObs{V: []int{}}}
	det := detail{Kind: "amt", ID: c.ID, Text: text}
	defer func() {
		if r := recover(); r != nil {
			rline, rdet, rerr = line, det, nil
			rline.Obs = amtObs{V: []int{}}
			rdet.OK = false
			rdet.Err = fmt.Sprintf("PANIC: %v", r)
		}
	}()
	v, err := cmd.FactoidToFactoshi(text)
	if err != nil {
		det.Err = err.Error()
		return line, det, nil
	}
	line.Obs.OK, det.OK = true, true
	line.Obs.V = digitsOf(v)
	det.Value = strconv.FormatUint(v, 10)
	return line, det, nil
}

// ---------------------------------------------------------------- plumbing

func readLines(path string) ([][]byte, error) {
	if path == "" {
		return nil, nil
	}
	f, err := os.Open(path)
	if err != nil {
		return nil, err
	}
	defer f.Close()
	var out [][]byte
	sc := bufio.NewScanner(f)
	sc.Buffer(make([]byte, 1<<20), 1<<26)
	for sc.Scan() {
		if len(bytes.TrimSpace(sc.Bytes())) == 0 {
			continue
		}
		out = append(out, append([]byte(nil), sc.Bytes()...))
	}
	return out, sc.Err()
}

type result struct {
	obs, det []byte
	err      error
}

func process(lines [][]byte, fn func([]byte) ([]byte, []byte, error)) []result {
	res := make([]result, len(lines))
	var wg sync.WaitGroup
	n := runtime.NumCPU()
	ch := make(chan int, 1024)
	for w := 0; w < n; w++ {
		wg.Add(1)
		go func() {
			defer wg.Done()
			for i := range ch {
				func() {
					defer func() {
						if r := recover(); r != nil {
							res[i].err = fmt.Errorf("panic in line %d: %v", i+1, r)
						}
					}()
					o, d, err := fn(lines[i])
					res[i] = result{o, d, err}
				}()
			}
		}()
	}
	for i := range lines {
		ch <- i
	}
	close(ch)
	wg.Wait()
	return res
}

func writeAll(path string, res []result, pick func(result) []byte) error {
	if path == "" {
		return nil
	}
	f, err := os.Create(path)
	if err != nil {
		return err
	}
	w := bufio.NewWriterSize(f, 1<<20)
	for _, r := range res {
		w.Write(pick(r))
		w.WriteByte('\n')
	}
	if err := w.Flush(); err != nil {
		return err
	}
	return f.Close()
}

func main() {
	inAmt := flag.String("amt", "", "amount cases (ndjson)")
	inBatch := flag.String("batch", "", "batch cases (ndjson)")
	outAmt := flag.String("out-amt", "", "amount observations")
	outBatch := flag.String("out-batch", "", "batch observations")
	outDet := flag.String("detail", "", "human readable details")
	flag.Parse()

	fail := func(err error) {
		fmt.Fprintln(os.Stderr, "c20:", err)
		os.Exit(2)
	}

	al, err := readLines(*inAmt)
	if err != nil {
		fail(err)
	}
	bl, err := readLines(*inBatch)
	if err != nil {
		fail(err)
	}

	ares := process(al, func(raw []byte) ([]byte, []byte, error) {
		var c amtCase
		if err := json.Unmarshal(raw, &c); err != nil {
			return nil, nil, err
		}
		l, d, err := runAmt(c)
		if err != nil {
			return nil, nil, err
		}
		o, _ := json.Marshal(l)
		dd, _ := json.Marshal(d)
		return o, dd, nil
	})
	bres := process(bl, func(raw []byte) ([]byte, []byte, error) {
		var c batchCase
		if err := json.Unmarshal(raw, &c); err != nil {
			return nil, nil, err
		}
		l, d, err := runBatch(c)
		if err != nil {
			return nil, nil, err
		}
		o, _ := json.Marshal(l)
		dd, _ := json.Marshal(d)
		return o, dd, nil
	})
	for _, r := range append(append([]result{}, ares...), bres...) {
		if r.err != nil {
			fail(r.err)
		}
	}
	if err := writeAll(*outAmt, ares, func(r result) []byte { return r.obs }); err != nil {
		fail(err)
	}
	if err := writeAll(*outBatch, bres, func(r result) []byte { return r.obs }); err != nil {
		fail(err)
	}
	if err := writeAll(*outDet, append(append([]result{}, ares...), bres...), func(r result) []byte { return r.det }); err != nil {
		fail(err)
	}
	nacc := 0
	for _, r := range bres {
		if bytes.Contains(r.obs, []byte(`"obs":{"ok":true`)) {
			nacc++
		}
	}
	fmt.Printf("c20: %d amount cases, %d batch cases (%d accepted by the code)\n", len(al), len(bl), nacc)
}

// Package gen concretises abstract scenarios (JSON) into real signed Factom content.
package gen

import (
	"encoding/json"
	"fmt"
	"io/ioutil"
	"math/big"
)

// Scenario is the abstract scenario (see DESIGN.md appendix A).
type Scenario struct {
	Name      string            `json:"name"`
	Sched     map[string]uint32 `json:"sched"`
	AvgPeriod uint64            `json:"avgPeriod"`
	Seed      int64             `json:"seed"`
	Assets    []string          `json:"assets"` // asset universe for observations, pTicker names ("PEG","pUSD",..)
	Keys      map[string]string `json:"keys"`   // name -> "ed" | "rcde"
	Tip       uint32            `json:"tip"`
	Blocks    []SBlock          `json:"blocks"`
	Control   json.RawMessage   `json:"control,omitempty"`
	// DefaultRate is used for assets the scenario does not mention (1e-8 USD units).
	DefaultRate string `json:"defaultRate,omitempty"`
}

// SBlock is the abstract content of one height (absent heights are empty blocks).
type SBlock struct {
	H       uint32   `json:"h"`
	OPR     *SGrade  `json:"opr,omitempty"`
	SPR     *SGrade  `json:"spr,omitempty"`
	Entries []SEntry `json:"entries,omitempty"`
	Burns   []SBurn  `json:"burns,omitempty"`
}

// SGrade describes the OPR (or SPR) records of a block.
type SGrade struct {
	Ver      int               `json:"ver"`      // record version written by the miners/stakers
	GradeVer int               `json:"gradeVer"` // grader version the oracle uses (must equal the spec's era table)
	N        int               `json:"n"`        // number of records
	Rates    map[string]string `json:"rates"`    // pTicker -> decimal string
	PayTo    []string          `json:"payTo"`    // coinbase address key names, len N (cycled if shorter)
	Class    string            `json:"class"`    // ok | prevmismatch | garbage | short | ...
	// per-record overrides (index -> rates), used for band / outlier cases
	Alt map[string]map[string]string `json:"alt,omitempty"`
	// SPR only
	Stakers []string `json:"stakers,omitempty"` // declared staker id (ExtIDs[1]) key names
	Signers []string `json:"signers,omitempty"` // signing keys (default: stakers)
	Raw     []SRaw   `json:"raw,omitempty"`     // extra raw entries on this chain (adversarial)
}

// SRaw is a raw entry.
type SRaw struct {
	ExtIDs  []string `json:"extids"`  // hex
	Content string   `json:"content"` // hex
}

// SEntry is an entry on the transaction chain.
type SEntry struct {
	ID      string `json:"id"`
	Signer  string `json:"signer"`
	Txs     []STx  `json:"txs"`
	Minute  int    `json:"minute,omitempty"`
	SaltOff int64  `json:"saltOff,omitempty"` // seconds added to the entry timestamp for the salt
	Mut     string `json:"mut,omitempty"`     // mutation class
	DupOf   string `json:"dupOf,omitempty"`   // byte-identical copy of an earlier entry id
	Raw     *SRaw  `json:"raw,omitempty"`     // raw entry instead of a batch
	Content string `json:"content,omitempty"` // literal JSON content (signed by Signer) instead of Txs
}

// STx is one transaction of a batch.
type STx struct {
	A    string     `json:"a,omitempty"` // input address key name (default: entry signer)
	T    string     `json:"t"`           // input pTicker
	Amt  string     `json:"amt"`         // decimal string
	Conv string     `json:"conv,omitempty"`
	To   [][]string `json:"to,omitempty"` // [[addrName, amount]...]
}

// SBurn is a factoid transaction in the block.
type SBurn struct {
	A     string `json:"a"`
	Amt   string `json:"amt"`
	Shape string `json:"shape,omitempty"` // ok | hasFctOut | ecAmt | twoInputs | wrongEc | noEc
}

// Load reads a scenario file.
func Load(path string) (*Scenario, error) {
	b, err := ioutil.ReadFile(path)
	if err != nil {
		return nil, err
	}
	s := new(Scenario)
	if err := json.Unmarshal(b, s); err != nil {
		return nil, fmt.Errorf("scenario %s: %v", path, err)
	}
	return s, nil
}

// U64 parses a decimal string.
func U64(s string) (uint64, error) {
	if s == "" {
		return 0, nil
	}
	z, ok := new(big.Int).SetString(s, 10)
	if !ok || z.Sign() < 0 || !z.IsUint64() {
		return 0, fmt.Errorf("bad uint64 %q", s)
	}
	return z.Uint64(), nil
}

// Limbs renders v as little-endian base-10^4 limbs (canonical: no leading zero limb, zero = []).
func Limbs(v uint64) []int {
	out := []int{}
	for v > 0 {
		out = append(out, int(v%10000))
		v /= 10000
	}
	return out
}

// LimbsBig renders a non-negative big integer.
func LimbsBig(v *big.Int) []int {
	out := []int{}
	z := new(big.Int).Set(v)
	m := big.NewInt(10000)
	r := new(big.Int)
	for z.Sign() > 0 {
		z.DivMod(z, m, r)
		out = append(out, int(r.Int64()))
	}
	return out
}

// LimbsI64 renders an int64 as sign + limbs.
func LimbsI64(v int64) map[string]interface{} {
	if v < 0 {
		return map[string]interface{}{"neg": true, "v": Limbs(uint64(-v))}
	}
	return map[string]interface{}{"neg": false, "v": Limbs(uint64(v))}
}

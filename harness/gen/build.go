package gen

import (
	"bytes"
	"crypto/sha256"
	"crypto/sha512"
	"encoding/binary"
	"encoding/hex"
	"fmt"
	"math/rand"
	"sort"
	"strconv"
	"strings"
	"time"

	"github.com/Factom-Asset-Tokens/factom"
	"github.com/Factom-Asset-Tokens/factom/jsonlen"
	"github.com/pegnet/pegnet/modules/grader"
	"github.com/pegnet/pegnet/modules/opr"
	"github.com/pegnet/pegnet/modules/testutils"
	"github.com/pegnet/pegnetd/config"
	"github.com/pegnet/pegnetd/fat/fat2"
	"github.com/pegnet/pegnetd/node"

	"verif/harness/ff"
)

// BaseTime is the timestamp of height 0; block h is BaseTime + h*600 s. Fixed so that
// runs are reproducible (nothing in pegnetd's block pipeline compares with wall-clock time).
var BaseTime = time.Unix(1600000000-1600000000%600, 0)

// BlockTime returns the directory block timestamp of height h.
func BlockTime(h uint32) time.Time { return BaseTime.Add(time.Duration(h) * 600 * time.Second) }

// ---------------------------------------------------------------- abstract inputs (trace side)

// InTx is the abstract view of a transaction.
type InTx struct {
	A    string   `json:"a"`
	T    string   `json:"t"`
	Amt  []int    `json:"amt"`
	Kind string   `json:"kind"` // "xfer" | "conv"
	Conv string   `json:"conv"`
	To   []InXfer `json:"to"`
}

// InXfer is one transfer output.
type InXfer struct {
	A   string `json:"a"`
	Amt []int  `json:"amt"`
}

// InEntry is the abstract view of a transaction-chain entry.
type InEntry struct {
	ID     string `json:"id"`   // scenario id
	Hash   string `json:"hash"` // entry hash (hex)
	First  string `json:"first"`
	Signer string `json:"signer"`
	Key    string `json:"key"`   // "ed" | "rcde"
	Auth   string `json:"auth"`  // "Valid" or mutation class
	Canon  bool   `json:"canon"` // content is a canonical FAT-2 batch (by construction)
	Txs    []InTx `json:"txs"`
	Order  int    `json:"order"` // position in the entry block
	HRank  int    `json:"hrank"` // rank of the entry hash among all transaction entries (hex order)
}

// InWinner is one graded record.
type InWinner struct {
	A   string `json:"a"`
	Pay []int  `json:"pay"`
	EH  string `json:"eh"`
}

// InSPR is the abstract view of one staking record.
type InSPR struct {
	EH       string `json:"eh"`
	Staker   string `json:"staker"`  // declared id (name of the address in ExtIDs[1]); "" if malformed
	Signer   string `json:"signer"`  // key that produced the signature ("" for v5 records: unsigned)
	Coinbase string `json:"coinbase"`
	Valid    bool   `json:"valid"`   // passes the grader's record validation (oracle: grader module)
	RatesKey string `json:"ratesKey"` // digest of the asset vector
}

// InGrade is the oracle's view of the OPR / SPR records of a block.
type InGrade struct {
	Present  bool               `json:"present"`
	Ver      int                `json:"ver"`
	GradeVer int                `json:"gradeVer"`
	N        int                `json:"n"`
	Winners  []InWinner         `json:"winners"` // payout order; empty if not enough valid records
	GradedN  int                `json:"gradedN"` // records that made the cutoff (rows of pn_winners if winners exist)
	Rates    map[string][]int   `json:"rates"`   // winner[0]'s rates for the asset universe; nil without winners
	RatesAll map[string][]int   `json:"-"`
	SPRs     []InSPR            `json:"sprs"`
	Short    []string           `json:"-"`
	AllRates map[string]uint64  `json:"-"`
}

// InBurn is the abstract view of a factoid transaction.
type InBurn struct {
	A     string `json:"a"`
	Amt   []int  `json:"amt"`
	Shape string `json:"shape"`
	TxID  string `json:"txid"`
}

// InBlock is the abstract input of one height.
type InBlock struct {
	H       uint32    `json:"h"`
	OPR     InGrade   `json:"opr"`
	SPR     InGrade   `json:"spr"`
	Entries []InEntry `json:"entries"`
	Burns   []InBurn  `json:"burns"`
}

// Chain is a concretised scenario.
type Chain struct {
	Scn    *Scenario
	Keys   *Keyring
	Blocks []*ff.Block          // heights 1..Tip
	In     map[uint32]*InBlock  // abstract inputs per height (all heights)
	Hash2ID map[string]string   // entry hash hex -> first scenario id with that hash
}

// ---------------------------------------------------------------- schedule

// ApplySchedule sets pegnetd's activation heights (package variables) from the scenario.
func ApplySchedule(s *Scenario) {
	g := func(k string, def uint32) uint32 {
		if v, ok := s.Sched[k]; ok {
			return v
		}
		return def
	}
	const never = uint32(1 << 30)
	config.PegnetActivation = g("Pegnet", 0)
	config.GradingV2Activation = g("GradingV2", 0)
	config.TransactionConversionActivation = g("TxConv", 0)
	config.PEGPricingActivation = g("PEGPricing", 0)
	config.OneWaypFCTConversions = g("OneWaypFCT", 0)
	config.PegnetConversionLimitActivation = g("ConvLimit", 0)
	config.PEGFreeFloatingPriceActivation = g("PEGFloat", 0)
	fat2.Fat2RCDEActivation = g("RCDe", 0)
	config.V4OPRUpdate = g("V4", 0)
	config.V20HeightActivation = g("V20", 0)
	config.V20DevRewardsHeightActivation = g("DevRewards", 0)
	config.SprSignatureActivation = g("SprSig", 0)
	config.OneWaySmallAssetsConversions = g("OneWaySmall", 0)
	config.V202EnhanceActivation = g("V202", 0)
	config.V204EnhanceActivation = g("V204", never)
	config.V204BurnMintedTokenActivation = g("V204Burn", never)
	config.PIP10AverageActivation = g("PIP10", never)
	if s.AvgPeriod > 0 {
		node.AveragePeriod = s.AvgPeriod
		node.AverageRequired = s.AvgPeriod / 2
	}
	// The mint address of the network is configuration (a package variable) like the activation heights: a
	// scenario may name a key pair of its own as the mint address, so that the holder of the 2.0.4 supply can
	// spend from it ("any prior balance of the special addresses", C15). Its name in the keyring stays MINT.
	node.GlobalMintAddress = defaultMintAddress
	if typ, ok := s.Keys["MINT"]; ok {
		node.GlobalMintAddress = deriveKey("MINT", typ).FA.String()
	}
}

var defaultMintAddress = node.GlobalMintAddress

// OPRVersion returns the record version miners would write at h under the scenario schedule
// (used only as a default when the scenario does not say).
func OPRVersion(s *Scenario, h uint32) int {
	v := 1
	if h >= s.Sched["GradingV2"] {
		v = 2
	}
	if h >= s.Sched["PEGFloat"] {
		v = 3
	}
	if h >= s.Sched["V4"] {
		v = 4
	}
	if h >= s.Sched["V20"] {
		v = 5
	}
	return v
}

// ---------------------------------------------------------------- FAT-2 entries

func txJSON(kr *Keyring, signer string, txs []STx) (string, []InTx, error) {
	var parts []string
	var ins []InTx
	for _, t := range txs {
		a := t.A
		if a == "" {
			a = signer
		}
		k, err := kr.Get(a)
		if err != nil {
			return "", nil, err
		}
		amt, err := U64(t.Amt)
		if err != nil {
			return "", nil, err
		}
		in := InTx{A: a, T: t.T, Amt: Limbs(amt), Kind: "xfer", Conv: "", To: []InXfer{}}
		s := fmt.Sprintf(`{"input":{"address":"%s","amount":%d,"type":"%s"}`, k.FA.String(), amt, t.T)
		if t.Conv != "" {
			s += fmt.Sprintf(`,"conversion":"%s"}`, t.Conv)
			in.Kind = "conv"
			in.Conv = t.Conv
		} else {
			var outs []string
			for _, o := range t.To {
				ok, err := kr.Get(o[0])
				if err != nil {
					return "", nil, err
				}
				oa, err := U64(o[1])
				if err != nil {
					return "", nil, err
				}
				outs = append(outs, fmt.Sprintf(`{"address":"%s","amount":%d}`, ok.FA.String(), oa))
				in.To = append(in.To, InXfer{A: o[0], Amt: Limbs(oa)})
			}
			s += `,"transfers":[` + strings.Join(outs, ",") + `]}`
		}
		parts = append(parts, s)
		ins = append(ins, in)
	}
	return `{"version":1,"transactions":[` + strings.Join(parts, ",") + `]}`, ins, nil
}

// signExtIDs produces the FAT-103 external ids for content on chain with the given salt.
func signExtIDs(chain factom.Bytes32, content []byte, salt string, signers []factom.RCDSigner) [][]byte {
	maxLen := jsonlen.Uint64(uint64(len(signers)))
	msg := make([]byte, maxLen+len(salt)+32+len(content))
	i := maxLen
	i += copy(msg[i:], salt)
	i += copy(msg[i:], chain[:])
	copy(msg[i:], content)
	ext := [][]byte{[]byte(salt)}
	for id, s := range signers {
		idSalt := strconv.FormatUint(uint64(id), 10)
		start := maxLen - len(idSalt)
		copy(msg[start:], idSalt)
		h := sha512.Sum512(msg[start:])
		ext = append(ext, s.RCD(), s.Sign(h[:]))
	}
	return ext
}

func flipBit(b []byte, bit int) {
	if len(b) == 0 {
		return
	}
	bit = bit % (len(b) * 8)
	b[bit/8] ^= 1 << uint(bit%8)
}

// buildTxEntry builds one transaction-chain entry with its abstract description.
func (c *Chain) buildTxEntry(h uint32, e *SEntry, rng *rand.Rand) (*ff.Entry, *InEntry, error) {
	chain := config.TransactionChain
	minute := e.Minute
	if minute < 1 {
		minute = 1
	}
	ent := &ff.Entry{ChainID: chain, Minute: minute}
	in := &InEntry{ID: e.ID, Signer: e.Signer, Auth: "Valid", Canon: true, Txs: []InTx{}}
	if e.Raw != nil {
		for _, x := range e.Raw.ExtIDs {
			b, err := hex.DecodeString(x)
			if err != nil {
				return nil, nil, err
			}
			ent.ExtIDs = append(ent.ExtIDs, b)
		}
		b, err := hex.DecodeString(e.Raw.Content)
		if err != nil {
			return nil, nil, err
		}
		ent.Content = b
		in.Canon = false
		in.Auth = "Raw"
		return ent, in, nil
	}
	k, err := c.Keys.Get(e.Signer)
	if err != nil {
		return nil, nil, err
	}
	in.Key = k.Type
	var content string
	if e.Content != "" {
		content = e.Content
		for name, kk := range c.Keys.ByName { // ${NAME} -> human readable address
			content = strings.Replace(content, "${"+name+"}", kk.FA.String(), -1)
		}
		in.Canon = false
	} else {
		var ins []InTx
		content, ins, err = txJSON(c.Keys, e.Signer, e.Txs)
		if err != nil {
			return nil, nil, err
		}
		in.Txs = ins
	}
	ts := BlockTime(h).Add(time.Duration(minute) * time.Minute)
	saltT := ts.Unix() + e.SaltOff
	mut := e.Mut
	switch mut {
	case "saltearly":
		saltT = ts.Unix() - 12*3600 - 1 - int64(rng.Intn(1000))
	case "saltlate":
		saltT = ts.Unix() + 12*3600 + 1 + int64(rng.Intn(1000))
	case "saltedge-":
		saltT = ts.Unix() - 12*3600 // exactly on the edge: still valid
		mut = ""
	case "saltedge+":
		saltT = ts.Unix() + 12*3600
		mut = ""
	}
	salt := strconv.FormatInt(saltT, 10)
	signChain := chain
	if mut == "wrongchain" {
		signChain = config.OPRChain
	}
	signer := k.Signer()
	switch mut {
	case "wrongkey":
		other := &Key{}
		seed := sha256.Sum256([]byte("verif-key:intruder:" + e.ID))
		if k.Type == "rcde" {
			other.Eth = factom.EthSecret(seed)
			other.Type = "rcde"
		} else {
			other.Fs = factom.FsAddress(seed)
			other.Type = "ed"
		}
		signer = other.Signer()
	}
	ext := signExtIDs(signChain, []byte(content), salt, []factom.RCDSigner{signer})
	switch mut {
	case "", "saltearly", "saltlate", "wrongchain", "wrongkey":
	case "badsig":
		ext[2] = append([]byte{}, ext[2]...)
		flipBit(ext[2], rng.Intn(64*8))
	case "missingsig":
		ext = ext[:2]
	case "nosig":
		ext = ext[:1]
	case "noext":
		ext = nil // not even a salt: nothing that could carry an authorisation
	case "emptyext":
		ext = [][]byte{{}, {}, {}}
	case "saltonlyext":
		ext = [][]byte{ext[0], {}, {}}
	case "extrasig":
		ext = append(ext, ext[1], ext[2])
	case "rcdswap":
		// RCD of the signer, signature by an intruder
		seed := sha256.Sum256([]byte("verif-key:intruder:" + e.ID))
		var is factom.RCDSigner = factom.FsAddress(seed)
		if k.Type == "rcde" {
			is = factom.EthSecret(seed)
		}
		x := signExtIDs(signChain, []byte(content), salt, []factom.RCDSigner{is})
		ext[2] = x[2]
	case "recbyte":
		// RCD-e signature with the (ignored) recovery byte altered
		ext[2] = append([]byte{}, ext[2]...)
		ext[2][len(ext[2])-1] ^= 0x01
	case "content":
		// content changed after signing: amount of the first input +1 (still canonical JSON)
		content = strings.Replace(content, `"amount":`, `"amount":1`, 1)
	default:
		if strings.HasPrefix(mut, "flip:") {
			// flip:<target>:<bit>   target = content | ext0 | ext1 | ext2
			p := strings.Split(mut, ":")
			bit, _ := strconv.Atoi(p[2])
			cb := []byte(content)
			switch p[1] {
			case "content":
				flipBit(cb, bit)
				content = string(cb)
			case "ext0", "ext1", "ext2":
				i := int(p[1][3] - '0')
				ext[i] = append([]byte{}, ext[i]...)
				flipBit(ext[i], bit)
			}
		} else {
			return nil, nil, fmt.Errorf("unknown mutation %q", mut)
		}
	}
	if mut != "" {
		in.Auth = mut
		if i := strings.Index(mut, ":"); i > 0 {
			in.Auth = "flip"
		}
	}
	ent.ExtIDs = ext
	ent.Content = []byte(content)
	return ent, in, nil
}

// ---------------------------------------------------------------- OPR / SPR records

func oprAssetNames(ver int) []string {
	switch ver {
	case 1:
		return opr.V1Assets
	case 2, 3:
		return opr.V2Assets
	case 4:
		return opr.V4Assets
	default:
		return opr.V5Assets
	}
}

func (c *Chain) rateFor(name string, rates map[string]string) (uint64, error) {
	key := "p" + name
	if name == "PEG" || name == "PNT" {
		key = "PEG"
	}
	if s, ok := rates[key]; ok {
		return U64(s)
	}
	if c.Scn.DefaultRate != "" {
		return U64(c.Scn.DefaultRate)
	}
	return 100000000, nil
}

func mergeRates(base map[string]string, alt map[string]string) map[string]string {
	if alt == nil {
		return base
	}
	m := map[string]string{}
	for k, v := range base {
		m[k] = v
	}
	for k, v := range alt {
		m[k] = v
	}
	return m
}

// buildOPRs builds the OPR entries of a block.
func (c *Chain) buildOPRs(h uint32, g *SGrade, prev []string, rng *rand.Rand) ([]ff.Entry, error) {
	var out []ff.Entry
	names := oprAssetNames(g.Ver)
	nw := testutils.WinnerAmt(uint8(g.Ver))
	pw := prev
	if len(pw) == 0 {
		pw = make([]string, nw)
	}
	if g.Ver == 1 && len(pw) != 10 {
		pw = make([]string, 10)
	}
	if g.Class == "prevmismatch" {
		pw = make([]string, nw)
		for i := range pw {
			pw[i] = fmt.Sprintf("%016x", rng.Uint64())
		}
	}
	for i := 0; i < g.N; i++ {
		pay := fmt.Sprintf("M%d", i+1)
		if len(g.PayTo) > 0 {
			pay = g.PayTo[i%len(g.PayTo)]
		}
		pk, err := c.Keys.Get(pay)
		if err != nil {
			return nil, err
		}
		rates := mergeRates(g.Rates, g.Alt[strconv.Itoa(i)])
		var rerr error
		_, ext, content := testutils.RandomOPRWithFieldsAndModify(uint8(g.Ver), int32(h), pw, func(o interface{}) {
			switch v := o.(type) {
			case *opr.V1Content:
				v.CoinbaseAddress = pk.FA.String()
				v.FactomDigitalID = fmt.Sprintf("miner%d", i)
				for _, n := range names {
					r, err := c.rateFor(n, rates)
					if err != nil {
						rerr = err
					}
					v.Assets[n] = float64(r) / 1e8
				}
			case *opr.V2Content:
				v.Address = pk.FA.String()
				v.ID = fmt.Sprintf("miner%d", i)
				for j, n := range names {
					r, err := c.rateFor(n, rates)
					if err != nil {
						rerr = err
					}
					v.Assets[j] = r
				}
			}
		})
		if rerr != nil {
			return nil, rerr
		}
		if content == nil {
			return nil, fmt.Errorf("cannot build OPR version %d", g.Ver)
		}
		if g.Class == "badver" {
			ext[2] = []byte{byte(g.Ver + 1)}
		}
		out = append(out, ff.Entry{ChainID: config.OPRChain, ExtIDs: ext, Content: content, Minute: 1 + i%9})
	}
	for _, r := range g.Raw {
		e, err := rawEntry(config.OPRChain, r)
		if err != nil {
			return nil, err
		}
		out = append(out, e)
	}
	sort.SliceStable(out, func(i, j int) bool { return out[i].Minute < out[j].Minute })
	return out, nil
}

func rawEntry(chain factom.Bytes32, r SRaw) (ff.Entry, error) {
	e := ff.Entry{ChainID: chain, Minute: 1}
	for _, x := range r.ExtIDs {
		b, err := hex.DecodeString(x)
		if err != nil {
			return e, err
		}
		e.ExtIDs = append(e.ExtIDs, b)
	}
	b, err := hex.DecodeString(r.Content)
	if err != nil {
		return e, err
	}
	e.Content = b
	return e, nil
}

// buildSPRs builds the SPR entries of a block and their abstract descriptions.
func (c *Chain) buildSPRs(h uint32, g *SGrade, rng *rand.Rand) ([]ff.Entry, []InSPR, error) {
	var out []ff.Entry
	var ins []InSPR
	for i := 0; i < g.N; i++ {
		staker := g.Stakers[i%len(g.Stakers)]
		signer := staker
		if len(g.Signers) > 0 {
			signer = g.Signers[i%len(g.Signers)]
		}
		pay := staker
		if len(g.PayTo) > 0 {
			pay = g.PayTo[i%len(g.PayTo)]
		}
		sk, err := c.Keys.Get(staker)
		if err != nil {
			return nil, nil, err
		}
		gk, err := c.Keys.Get(signer)
		if err != nil {
			return nil, nil, err
		}
		pk, err := c.Keys.Get(pay)
		if err != nil {
			return nil, nil, err
		}
		rates := mergeRates(g.Rates, g.Alt[strconv.Itoa(i)])
		o := new(opr.V2Content)
		o.Height = int32(h)
		o.Address = pk.FA.String()
		o.ID = fmt.Sprintf("staker%d", i)
		o.Assets = make([]uint64, len(opr.V5Assets))
		hsh := sha256.New()
		for j, n := range opr.V5Assets {
			r, err := c.rateFor(n, rates)
			if err != nil {
				return nil, nil, err
			}
			o.Assets[j] = r
			binary.Write(hsh, binary.BigEndian, r)
		}
		content, err := o.Marshal()
		if err != nil {
			return nil, nil, err
		}
		ext := [][]byte{{byte(g.Ver)}, append([]byte{}, sk.FA[:]...), nil}
		in := InSPR{Staker: staker, Coinbase: pay, Valid: true, RatesKey: hex.EncodeToString(hsh.Sum(nil)[:6])}
		if g.Ver >= 6 {
			sig := gk.EdSign(content)
			ext[2] = append(append([]byte{}, gk.EdPub()...), sig...)
			in.Signer = signer
			if g.Class == "badsig" {
				ext[2][40] ^= 1
				in.Valid = false
			}
		} else {
			ext[2] = []byte{0}
		}
		if g.Class == "badver" {
			ext[0] = []byte{byte(g.Ver + 1)}
			in.Valid = false
		}
		e := ff.Entry{ChainID: config.SPRChain, ExtIDs: ext, Content: content, Minute: 1 + i%9}
		out = append(out, e)
		ins = append(ins, in)
	}
	for _, r := range g.Raw {
		e, err := rawEntry(config.SPRChain, r)
		if err != nil {
			return nil, nil, err
		}
		out = append(out, e)
		ins = append(ins, InSPR{Valid: false})
	}
	// keep entries and descriptions aligned while ordering by minute
	idx := make([]int, len(out))
	for i := range idx {
		idx[i] = i
	}
	sort.SliceStable(idx, func(a, b int) bool { return out[idx[a]].Minute < out[idx[b]].Minute })
	o2 := make([]ff.Entry, len(out))
	i2 := make([]InSPR, len(out))
	for n, i := range idx {
		o2[n] = out[i]
		i2[n] = ins[i]
		h := o2[n].Hash()
		i2[n].EH = hex.EncodeToString(h[:8])
	}
	return o2, i2, nil
}

// ---------------------------------------------------------------- factoid transactions

func (c *Chain) buildBurn(h uint32, b *SBurn, n int) (ff.FTx, *InBurn, error) {
	k, err := c.Keys.Get(b.A)
	if err != nil {
		return ff.FTx{}, nil, err
	}
	amt, err := U64(b.Amt)
	if err != nil {
		return ff.FTx{}, nil, err
	}
	var pub [32]byte
	if k.Type == "ed" {
		copy(pub[:], k.EdPub())
	}
	t := ff.FTx{MilliTime: uint64(BlockTime(h).Unix())*1000 + uint64(n) + 1}
	t.Inputs = []ff.FIO{{Amount: amt, Address: factom.Bytes32(k.FA)}}
	t.RCDKeys = [][32]byte{pub}
	t.ECOutputs = []ff.FIO{{Amount: 0, Address: factom.Bytes32(node.BurnRCD)}}
	shape := b.Shape
	if shape == "" {
		shape = "ok"
	}
	switch shape {
	case "ok":
	case "hasFctOut":
		t.Outputs = []ff.FIO{{Amount: 1, Address: factom.Bytes32(k.FA)}}
	case "ecAmt":
		t.ECOutputs[0].Amount = 1
	case "twoInputs":
		t.Inputs = append(t.Inputs, ff.FIO{Amount: 1, Address: factom.Bytes32(k.FA)})
		t.RCDKeys = append(t.RCDKeys, pub)
	case "wrongEc":
		t.ECOutputs[0].Address = sha256.Sum256([]byte("not the burn address"))
	case "noEc":
		t.ECOutputs = nil
	case "twoEc":
		t.ECOutputs = append(t.ECOutputs, ff.FIO{Amount: 0, Address: factom.Bytes32(node.BurnRCD)})
	default:
		return t, nil, fmt.Errorf("unknown burn shape %q", shape)
	}
	id := t.TxID()
	return t, &InBurn{A: b.A, Amt: Limbs(amt), Shape: shape, TxID: hex.EncodeToString(id[:])}, nil
}

// ---------------------------------------------------------------- chain

// Build concretises the scenario. grader.InitLX() must have been called.
func Build(s *Scenario) (*Chain, error) {
	ApplySchedule(s)
	testutils.SetTestLXR(grader.LX)
	kr, err := NewKeyring(s.Keys)
	if err != nil {
		return nil, err
	}
	for i := 1; i <= 50; i++ { // default miner payout keys
		kr.Add(fmt.Sprintf("M%d", i), "ed")
	}
	c := &Chain{Scn: s, Keys: kr, In: map[uint32]*InBlock{}, Hash2ID: map[string]string{}}
	rng := rand.New(rand.NewSource(s.Seed*7919 + 17))
	rand.Seed(s.Seed*104729 + 5) // testutils uses the global source for nonces
	byH := map[uint32]*SBlock{}
	for i := range s.Blocks {
		b := &s.Blocks[i]
		if _, dup := byH[b.H]; dup {
			return nil, fmt.Errorf("duplicate block height %d", b.H)
		}
		byH[b.H] = b
		if b.H > s.Tip {
			s.Tip = b.H
		}
	}
	var prevWinners []string
	entryByID := map[string]*ff.Entry{}
	inByID := map[string]*InEntry{}
	start := config.PegnetActivation
	for h := start + 1; h <= s.Tip; h++ {
		blk := &ff.Block{Height: h, Time: BlockTime(h)}
		in := &InBlock{H: h, Entries: []InEntry{}, Burns: []InBurn{}}
		in.OPR.Winners, in.SPR.Winners = []InWinner{}, []InWinner{}
		in.OPR.Rates, in.SPR.Rates = map[string][]int{}, map[string][]int{}
		in.OPR.SPRs, in.SPR.SPRs = []InSPR{}, []InSPR{}
		sb := byH[h]
		if sb != nil {
			// ---- OPR
			if sb.OPR != nil {
				g := sb.OPR
				if g.Ver == 0 {
					g.Ver = OPRVersion(s, h)
				}
				if g.GradeVer == 0 {
					g.GradeVer = OPRVersion(s, h)
				}
				ents, err := c.buildOPRs(h, g, prevWinners, rng)
				if err != nil {
					return nil, fmt.Errorf("h=%d opr: %v", h, err)
				}
				if len(ents) > 0 {
					blk.Entries = append(blk.Entries, ents...)
					ig, short, err := c.gradeOPR(h, g, ents, prevWinners)
					if err != nil {
						return nil, fmt.Errorf("h=%d grade: %v", h, err)
					}
					in.OPR = *ig
					prevWinners = short
				}
			}
			// ---- SPR
			if sb.SPR != nil && sb.SPR.N+len(sb.SPR.Raw) > 0 {
				g := sb.SPR
				if g.Ver == 0 {
					g.Ver = 5
					if h >= s.Sched["SprSig"] {
						g.Ver = 6
					}
					if h >= s.Sched["V202"] {
						g.Ver = 7
					}
				}
				if g.GradeVer == 0 {
					g.GradeVer = g.Ver
				}
				if len(g.Stakers) == 0 && g.N > 0 {
					return nil, fmt.Errorf("h=%d spr: no stakers", h)
				}
				ents, ins, err := c.buildSPRs(h, g, rng)
				if err != nil {
					return nil, fmt.Errorf("h=%d spr: %v", h, err)
				}
				blk.Entries = append(blk.Entries, ents...)
				in.SPR = InGrade{Present: true, Ver: g.Ver, GradeVer: g.GradeVer, N: len(ents), Winners: []InWinner{}, SPRs: ins}
				in.SPR.Rates = map[string][]int{}
				for _, a := range s.Assets {
					n := strings.TrimPrefix(a, "p")
					r, err := c.rateFor(n, g.Rates)
					if err != nil {
						return nil, err
					}
					in.SPR.Rates[a] = Limbs(r)
				}
			}
			// ---- transaction chain
			for i := range sb.Entries {
				se := &sb.Entries[i]
				var ent *ff.Entry
				var ie *InEntry
				if se.DupOf != "" {
					orig, ok := entryByID[se.DupOf]
					if !ok {
						return nil, fmt.Errorf("h=%d entry %s: dupOf %s unknown", h, se.ID, se.DupOf)
					}
					cp := *orig
					if se.Minute > 0 {
						cp.Minute = se.Minute
					}
					ent = &cp
					x := *inByID[se.DupOf]
					x.ID = se.ID
					ie = &x
					// a third party's altered copy of an existing entry (same content, salt and signature)
					if se.Mut != "" {
						cp.ExtIDs = append([][]byte{}, orig.ExtIDs...)
						switch {
						case se.Mut == "recbyte" && len(cp.ExtIDs) >= 3:
							sg := append([]byte{}, cp.ExtIDs[2]...)
							sg[len(sg)-1] ^= 0x01
							cp.ExtIDs[2] = sg
							x.Auth = "RecoveryByteAltered"
						case strings.HasPrefix(se.Mut, "ws:"):
							// the same JSON value written differently (insignificant whitespace): other bytes, other entry
							// hash, signature of the original bytes -> not signed by anybody
							cb := string(cp.Content)
							switch strings.TrimPrefix(se.Mut, "ws:") {
							case "lead":
								cb = " " + cb
							case "trail":
								cb = cb + "\n"
							case "colon":
								cb = strings.Replace(cb, ":", ": ", 1)
							case "comma":
								cb = strings.Replace(cb, ",", ", ", 1)
							case "inner":
								cb = strings.Replace(cb, "{", "{ ", 1)
							case "tab":
								cb = strings.Replace(cb, "[", "[\t", 1)
							default:
								return nil, fmt.Errorf("h=%d entry %s: unknown whitespace variant %q", h, se.ID, se.Mut)
							}
							cp.Content = []byte(cb)
							x.Auth = "ContentRewritten"
						case strings.HasPrefix(se.Mut, "flip:"):
							pp := strings.Split(se.Mut, ":")
							bit, _ := strconv.Atoi(pp[2])
							switch pp[1] {
							case "content":
								cb := append([]byte{}, cp.Content...)
								flipBit(cb, bit)
								cp.Content = cb
							default:
								i := int(pp[1][3] - '0')
								if i < len(cp.ExtIDs) {
									b := append([]byte{}, cp.ExtIDs[i]...)
									flipBit(b, bit)
									cp.ExtIDs[i] = b
								}
							}
							x.Auth = "flip"
							if x.Key == "rcde" && pp[1] == "ext2" && len(orig.ExtIDs) >= 3 && bit%(len(orig.ExtIDs[2])*8)/8 == len(orig.ExtIDs[2])-1 {
								x.Auth = "RecoveryByteAltered"
							}
						default:
							return nil, fmt.Errorf("h=%d entry %s: mutation %q not supported on copies", h, se.ID, se.Mut)
						}
					}
				} else {
					ent, ie, err = c.buildTxEntry(h, se, rng)
					if err != nil {
						return nil, fmt.Errorf("h=%d entry %s: %v", h, se.ID, err)
					}
				}
				entryByID[se.ID] = ent
				inByID[se.ID] = ie
				blk.Entries = append(blk.Entries, *ent)
			}
			// ---- factoid
			for i := range sb.Burns {
				t, ib, err := c.buildBurn(h, &sb.Burns[i], i)
				if err != nil {
					return nil, fmt.Errorf("h=%d burn: %v", h, err)
				}
				blk.Factoid = append(blk.Factoid, t)
				in.Burns = append(in.Burns, *ib)
			}
		}
		// entry-block order of the transaction chain = order after the stable minute sort done by ff
		// (ff keeps order and clamps minutes to be non-decreasing), so compute hashes in that order.
		var txe []ff.Entry
		for _, e := range blk.Entries {
			if e.ChainID == config.TransactionChain {
				txe = append(txe, e)
			}
		}
		if sb != nil {
			n := 0
			for i := range sb.Entries {
				ie := *inByID[sb.Entries[i].ID]
				hh := txe[n].Hash()
				ie.Hash = hex.EncodeToString(hh[:])
				ie.Order = n
				if first, ok := c.Hash2ID[ie.Hash]; ok {
					ie.First = first
				} else {
					c.Hash2ID[ie.Hash] = ie.ID
					ie.First = ie.ID
				}
				in.Entries = append(in.Entries, ie)
				n++
			}
		}
		c.Blocks = append(c.Blocks, blk)
		c.In[h] = in
	}
	// rank of every entry hash (lexicographic hex order), for the txid tie rule of the PEG bank
	var hs []string
	for k := range c.Hash2ID {
		hs = append(hs, k)
	}
	sort.Strings(hs)
	rank := map[string]int{}
	for i, k := range hs {
		rank[k] = i
	}
	for _, in := range c.In {
		for i := range in.Entries {
			in.Entries[i].HRank = rank[in.Entries[i].Hash]
		}
	}
	return c, nil
}

// gradeOPR is the oracle for OPR grading: the pegnet grader module run on the same entries.
func (c *Chain) gradeOPR(h uint32, g *SGrade, ents []ff.Entry, prev []string) (*InGrade, []string, error) {
	gr, err := grader.NewGrader(uint8(g.GradeVer), int32(h), prev)
	if err != nil {
		return nil, nil, err
	}
	for i := range ents {
		hh := ents[i].Hash()
		gr.AddOPR(hh[:], ents[i].ExtIDs, ents[i].Content)
	}
	gb := gr.Grade()
	ig := &InGrade{Present: true, Ver: g.Ver, GradeVer: g.GradeVer, N: len(ents), Winners: []InWinner{}, Rates: map[string][]int{}, SPRs: []InSPR{}}
	w := gb.Winners()
	if len(w) > 0 {
		ig.GradedN = len(gb.Graded())
		for _, o := range w {
			name := "?"
			if fa, err := factom.NewFAAddress(o.OPR.GetAddress()); err == nil {
				name = c.Keys.Name(fa)
			}
			ig.Winners = append(ig.Winners, InWinner{A: name, Pay: Limbs(uint64(o.Payout())), EH: hex.EncodeToString(o.EntryHash[:8])})
		}
		ig.Rates = map[string][]int{}
		all := map[string]uint64{}
		for _, a := range w[0].OPR.GetOrderedAssetsUint() {
			n := "p" + a.Name
			if a.Name == "PEG" || a.Name == "PNT" {
				n = "PEG"
			}
			all[n] = a.Value
		}
		ig.AllRates = all
		for _, a := range c.Scn.Assets {
			if v, ok := all[a]; ok {
				ig.Rates[a] = Limbs(v)
			}
		}
	}
	return ig, gb.WinnersShortHashes(), nil
}

var _ = bytes.Compare

package gen

import (
	"crypto/ed25519"
	"crypto/sha256"
	"fmt"
	"sort"

	"github.com/Factom-Asset-Tokens/factom"
	"github.com/pegnet/pegnetd/node"
)

// Key is a named key pair.
type Key struct {
	Name string
	Type string // "ed" | "rcde" | "special"
	Fs   factom.FsAddress
	Eth  factom.EthSecret
	FA   factom.FAAddress
}

// Signer returns the RCD signer of the key.
func (k *Key) Signer() factom.RCDSigner {
	if k.Type == "rcde" {
		return k.Eth
	}
	return k.Fs
}

// EdPub returns the ed25519 public key (ed keys only).
func (k *Key) EdPub() ed25519.PublicKey { return k.Fs.PublicKey() }

// EdSign signs msg with the ed25519 key.
func (k *Key) EdSign(msg []byte) []byte { return k.Fs.Sign(msg) }

// Keyring maps names to keys and addresses back to names.
type Keyring struct {
	ByName map[string]*Key
	ByFA   map[factom.FAAddress]string
}

// Special address names.
func specialAddrs() map[string]string {
	return map[string]string{
		"BURN":    node.GlobalBurnAddress,
		"OLDBURN": node.GlobalOldBurnAddress,
		"MINT":    node.GlobalMintAddress,
	}
}

// NewKeyring derives deterministic keys for the given names.
func NewKeyring(keys map[string]string) (*Keyring, error) {
	kr := &Keyring{ByName: map[string]*Key{}, ByFA: map[factom.FAAddress]string{}}
	for name, typ := range keys {
		if err := kr.Add(name, typ); err != nil {
			return nil, err
		}
	}
	for name, s := range specialAddrs() {
		if _, ok := kr.ByName[name]; ok {
			continue // the scenario holds the key of this address (MINT, see ApplySchedule)
		}
		fa, err := factom.NewFAAddress(s)
		if err != nil {
			return nil, err
		}
		kr.addKey(&Key{Name: name, Type: "special", FA: fa})
	}
	// GlobalOldBurnAddress ("OLDBURN") is the all-zero address: before 2.0.2 it is the burn address of transfers
	for i, d := range node.DeveloperRewardAddreses {
		fa, err := factom.NewFAAddress(d.DevAddress)
		if err != nil {
			return nil, err
		}
		kr.addKey(&Key{Name: fmt.Sprintf("DEV%d", i+1), Type: "special", FA: fa})
	}
	return kr, nil
}

func (kr *Keyring) addKey(k *Key) {
	kr.ByName[k.Name] = k
	kr.ByFA[k.FA] = k.Name
}

// Add derives and registers a key.
func (kr *Keyring) Add(name, typ string) error {
	if _, ok := kr.ByName[name]; ok {
		return nil
	}
	if typ != "ed" && typ != "" && typ != "rcde" {
		return fmt.Errorf("unknown key type %q for %s", typ, name)
	}
	kr.addKey(deriveKey(name, typ))
	return nil
}

// deriveKey derives the deterministic key pair of a name.
func deriveKey(name, typ string) *Key {
	seed := sha256.Sum256([]byte("verif-key:" + name))
	k := &Key{Name: name, Type: typ}
	if typ == "rcde" {
		k.Eth = factom.EthSecret(seed)
		k.FA = k.Eth.FAAddress()
	} else {
		k.Type = "ed"
		k.Fs = factom.FsAddress(seed)
		k.FA = k.Fs.FAAddress()
	}
	return k
}

// Get returns the key or an error.
func (kr *Keyring) Get(name string) (*Key, error) {
	k, ok := kr.ByName[name]
	if !ok {
		return nil, fmt.Errorf("unknown key %q", name)
	}
	return k, nil
}

// Name returns the name of an address, or "?hex".
func (kr *Keyring) Name(fa factom.FAAddress) string {
	if n, ok := kr.ByFA[fa]; ok {
		return n
	}
	return fmt.Sprintf("?%x", fa[:6])
}

// Names returns all names, sorted.
func (kr *Keyring) Names() []string {
	var out []string
	for n := range kr.ByName {
		out = append(out, n)
	}
	sort.Strings(out)
	return out
}

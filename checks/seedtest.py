#!/usr/bin/env python3
"""Run checks against a seeded change without touching /repo:
   python3 checks/seedtest.py <patch.diff> C03 [C04 ...] [--tier quick] [--no-tests]
Creates a scratch worktree of /repo's HEAD under /tmp, applies the patch, builds, runs the repository's own tests,
runs each named check with VERIF_REPO pointing at the worktree, then removes the worktree and the private harness copy."""
import os, shutil, subprocess, sys, tempfile, time, hashlib

def sh(cmd, **kw):
    return subprocess.run(cmd, stdout=subprocess.PIPE, stderr=subprocess.STDOUT, text=True, **kw)

def main():
    args = [a for a in sys.argv[1:] if not a.startswith("--")]
    tier = "quick"
    for i, a in enumerate(sys.argv):
        if a == "--tier":
            tier = sys.argv[i + 1]
            args.remove(tier)
    patch, pids = os.path.abspath(args[0]), args[1:]
    wt = tempfile.mkdtemp(prefix="seedwt-")
    os.rmdir(wt)
    env = dict(os.environ, GOFLAGS="-mod=mod", GOPROXY="off", GOSUMDB="off", GOTOOLCHAIN="local")
    try:
        r = sh(["git", "-C", "/repo", "worktree", "add", "--detach", wt])
        if r.returncode:
            print(r.stdout); return 2
        r = sh(["git", "-C", wt, "apply", patch])
        if r.returncode:
            print("patch does not apply:", r.stdout); return 2
        r = sh(["go", "build", "./..."], cwd=wt, env=env)
        print("build:", "ok" if r.returncode == 0 else "FAILED\n" + r.stdout[-800:])
        if r.returncode:
            return 2
        if "--no-tests" not in sys.argv:
            r = sh(["go", "test", "-vet=off", "-count=1", "./..."], cwd=wt, env=env)
            fails = [l for l in r.stdout.splitlines() if l.startswith("--- FAIL") or l.startswith("FAIL")]
            print("repo tests:", "pass" if r.returncode == 0 else "FAIL %s" % fails[:6])
        out = {}
        for pid in pids:
            t0 = time.time()
            e = dict(env, VERIF_REPO=wt, VERIF_TIER=tier, VERIF_OUT=wt + "-out")
            r = sh([sys.executable, os.path.join(os.path.dirname(os.path.abspath(__file__)), pid.lower() + ".py"), "--tier", tier], cwd="/verif", env=e)
            lines = [l for l in r.stdout.splitlines() if l.startswith("VIOLATION") or l.startswith("KNOWN-FINDING") or l.startswith("INFRA")]
            print("%s: rc=%d (%.0fs) %s" % (pid, r.returncode, time.time() - t0, " | ".join(x[:140] for x in lines[:4])))
            if r.returncode not in (0, 1):
                print(r.stdout[-1200:])
            out[pid] = r.returncode
        return 0
    finally:
        sh(["git", "-C", "/repo", "worktree", "remove", "--force", wt])
        tag = hashlib.sha256(os.path.realpath(wt).encode()).hexdigest()[:10]
        shutil.rmtree(os.path.join(tempfile.gettempdir(), "verif-harness-" + tag), ignore_errors=True)
        shutil.rmtree(wt, ignore_errors=True)
        if "--keep-out" not in sys.argv:
            shutil.rmtree(wt + "-out", ignore_errors=True)

if __name__ == "__main__":
    sys.exit(main())

"""Configuration conformance: the defaults the daemon is built with vs. Config.tla (decided by TLC); one run per process."""
import json, os, re
import vlib

_cache = {}


def issues():
    """tag -> list of texts"""
    if "r" in _cache:
        return _cache["r"]
    work = vlib.scratch("conf-")
    try:
        vh = vlib.go_build("vh", "vh")
        out = os.path.join(work, "config.ndjson")
        rc, o = vlib.run([vh, "consts", "-out", out], timeout=120)
        if rc != 0:
            raise vlib.Infra("vh consts failed: %s" % o[-400:])
        r = vlib.tlc("Trace_Config", cfg="Trace_Config.cfg", workers=1, files=[("trace.ndjson", out)], timeout=300, deadlock=False)
        if r.rc != 0 or not re.search(r'<<"DONE", 1, \d+>>', r.out):
            raise vlib.Infra("Trace_Config failed: %s" % r.out[-800:])
        res = {}
        for m in re.finditer(r'^"ISSUE (.*)"\s*$', r.out, re.M):
            a = json.loads(json.loads('"' + m.group(1) + '"'))
            res.setdefault(a[0], []).append("%s: %s (built with %s, main net %s)" % (a[1], a[2], a[3], a[4]))
        _cache["r"] = res
        return res
    finally:
        import shutil
        shutil.rmtree(work, ignore_errors=True)


def check(pid):
    """Prints a VIOLATION line for configuration differences that belong to pid; returns their number."""
    mine = issues().get(pid, [])
    if mine:
        p = vlib.save_replay(pid, "config-differs.txt", "\n".join(mine) + "\n")
        import sys
        for t in mine[:3]:
            sys.stdout.write("  configuration: %s\n" % t)
        vlib.violation(pid, p)
    return len(mine)

#!/usr/bin/env python3
"""C03 No overdraft; batches are all-or-nothing."""
import os, random, shutil, sys, time
sys.path.insert(0, os.path.dirname(os.path.abspath(__file__)))
import vlib, ledger, scen, mc

PID = "C03"


def family(seed, n_scn, users_per):
    docs = []
    rnd = random.Random(seed * 1000003 + 3)
    for k in range(n_scn):
        # every other scenario stays in the 2.0 / 2.0.1 era (2.0.2 beyond the chain), where small-cap destinations are still open
        s = scen.Scn("c03-%d" % k, seed=seed * 100 + k, sched=(dict(scen.LIVE, V202=60, OneWaySmall=60) if k % 2 else None))
        users = [s.key("A%d" % i, "rcde" if rnd.random() < 0.2 else "ed") for i in range(1, users_per + 1)]
        sink = s.key("Z1")
        scale = rnd.choice([1, 7, 10**4, 10**8, 3 * 10**9])
        h = scen.live_preamble(s, users, fund_peg=rnd.choice([1000, 5 * 10**5, 1000 * 10**8, 1200 * 10**8]))
        # every user converts part of the PEG into pUSD and pXBT (executes at the next rated block)
        for u in users:
            b = s.B(u, "PEG")
            s.entry(h, u, [{"t": "PEG", "amt": b // 4, "conv": "pUSD"}, {"t": "PEG", "amt": b // 4, "conv": "pXBT"}])
            s.pending.append((u, "PEG", b // 4, "pUSD"))
            s.pending.append((u, "PEG", b // 4, "pXBT"))
        s.grade(h)
        h += 1
        s.grade(h)          # conversions execute here
        h += 1
        # now the batches under test, 2 rounds
        for rd in range(2):
            s.grade(h)
            for u in users:
                t = rnd.choice(["PEG", "pUSD", "pXBT"])
                bal = s.B(u, t)
                shape = rnd.choice(["one", "one", "two_same", "two_same", "three", "self", "conv_spend", "mixed", "zero", "selfret", "selfret", "illsum", "pegmix", "pegmix"])
                around = lambda b: max(0, rnd.choice([b - 1, b, b + 1, b // 2, 2 * b, b - rnd.randint(0, 3), 1, 0]))
                if shape == "one":
                    a = around(bal)
                    s.transfer(h, u, t, [(sink, a)])
                elif shape == "two_same":
                    a = around(bal // 2)
                    b2 = around(bal - a) if rnd.random() < 0.7 else around(bal)
                    s.entry(h, u, [{"t": t, "amt": a, "to": [(sink, a)]}, {"t": t, "amt": b2, "to": [(sink, b2)]}])
                    if a + b2 <= bal and a <= bal and b2 <= bal:
                        s.add(u, t, -(a + b2)); s.add(sink, t, a + b2)
                elif shape == "three":
                    parts = [around(bal // 3) for _ in range(3)]
                    s.entry(h, u, [{"t": t, "amt": p, "to": [(sink, p)]} for p in parts])
                    if sum(parts) <= bal:
                        s.add(u, t, -sum(parts)); s.add(sink, t, sum(parts))
                elif shape == "self":
                    # transfer to self then spend: the credit back counts in the cumulative pass only
                    a = around(bal)
                    b2 = around(bal)
                    s.entry(h, u, [{"t": t, "amt": a, "to": [(u, a)]}, {"t": t, "amt": b2, "to": [(sink, b2)]}])
                    if a <= bal and b2 <= bal:
                        s.add(u, t, -b2); s.add(sink, t, b2)
                elif shape == "pegmix":
                    # a funded batch that mixes a conversion into PEG (refused since 2.0) with a transfer or another conversion: nothing of it may be applied
                    a = max(1, s.B(u, "pUSD") // 10)
                    other = rnd.choice([{"t": "pUSD", "amt": a, "to": [(sink, a)]}, {"t": "pUSD", "amt": a, "conv": "pXBT"}])
                    pegc = {"t": "pUSD", "amt": a + 1, "conv": "PEG"}
                    s.entry(h, u, [other, pegc] if rnd.random() < 0.5 else [pegc, other])
                elif shape == "selfret":
                    # part of the first input comes back to the sender, the second transaction draws on what is really left
                    scen.self_return(s, rnd, h, u, t, sink)
                elif shape == "illsum":
                    # outputs that do not add up to the input (wrapping around 2^64 / off by one): pays out more than it takes
                    scen.ill_sum(s, rnd, h, u, t, sink, rnd.choice(users))
                elif shape == "conv_spend":
                    # conversion, then spend of the converted asset (held batch)
                    a = around(s.B(u, "PEG"))
                    dst = rnd.choice(["pUSD", "pXBT"])
                    sp = around(s.B(u, dst) + (a * scen.RATES["PEG"] // scen.RATES[dst]) // rnd.choice([1, 2]))
                    s.entry(h, u, [{"t": "PEG", "amt": a, "conv": dst}, {"t": dst, "amt": sp, "to": [(sink, sp)]}])
                    # tracker: leave untouched (rough)
                elif shape == "mixed":
                    a = around(bal // 2)
                    c = around(s.B(u, "PEG") // 2)
                    s.entry(h, u, [{"t": t, "amt": a, "to": [(sink, a)]}, {"t": "PEG", "amt": c, "conv": "pUSD"}])
                else:
                    s.entry(h, u, [{"t": t, "amt": 0, "to": [(sink, 0)]}])
            # systematic: a conversion followed by a spend of the converted asset that only the not-yet-credited conversion output could
            # cover (every transaction of a batch must be affordable from the balance the address holds when the batch executes)
            for j, u in enumerate(users[:3]):
                dst = ["pUSD", "pXBT", "pUSD"][j]
                a = max(1, s.B(u, "PEG") // 4)
                credit = a * scen.RATES["PEG"] // scen.RATES[dst]
                have = s.B(u, dst)
                sp = [have + credit, have + 1, have + max(1, credit // 2)][(j + rd) % 3]
                if credit >= 1:
                    s.entry(h, u, [{"t": "PEG", "amt": a, "conv": dst}, {"t": dst, "amt": sp, "to": [(sink, sp)]}])
            h += 1
            if rnd.random() < 0.4:
                h += 1      # an unrated block in between
        s.grade(h)
        h += 1
        s.grade(h)
        s.tip(h)
        docs.append((s.s["name"], s.doc()))
    docs += bank_chains(seed, 1 if n_scn <= 6 else 3)
    return docs


def bank_chains(seed, count, prefix="c03"):
    docs = []
    rnd = random.Random(seed * 1000003 + 77)
    # bank era: the PEG of a conversion into PEG is credited in a later pass; batches that draw on PEG around such a
    # conversion (each draw affordable alone, together not). On the unchanged tree the implementation fails the whole block
    # for the over-drawing shape (known legacy behaviour, no verdict here); the other shapes must be all-or-nothing.
    for k in range(count):
        L = scen.LEG
        s = scen.Scn("%s-bank-%d" % (prefix, k), sched=L, seed=seed * 100 + 50 + k, assets=["PEG", "pUSD", "pFCT", "pXBT"])
        us = [s.key("B%d" % i) for i in range(1, 5)]
        whale = s.key("W1")
        s.burn(1, whale, 600000 * 10**8)
        for h in range(1, 21):
            s.grade(h, n=10 if h < L["GradingV2"] else 25, spr=False)
            if h <= 2:
                for u in us:
                    s.burn(h, u, 400 * 10**8)
            if h == L["TxConv"]:
                for u in us:
                    s.convert(h, u, "pFCT", 100 * 10**8, "pUSD", track=False)
            if h == L["ConvLimit"]:
                for u in us:
                    s.convert(h, u, "pFCT", 10 * 10**8, "PEG", track=False)        # everybody gets some PEG (about 300)
        h = L["ConvLimit"] + 3
        peg = 10 * 10**8 * 150000000 // scen.RATES["PEG"]
        # needs the deferred PEG in the first pass: refused (-1) without effect
        s.entry(h, us[0], [{"t": "pUSD", "amt": 10**8, "conv": "PEG"}, {"t": "PEG", "amt": peg + 1, "conv": "pUSD"}])
        # exactly affordable
        s.entry(h, us[1], [{"t": "PEG", "amt": peg, "conv": "pUSD"}])
        # each PEG draw affordable alone, together not, the last one relying on the deferred credit of the middle one
        s.entry(h + 1, us[2], [{"t": "PEG", "amt": peg, "conv": "pUSD"}, {"t": "pUSD", "amt": 50 * 10**8, "conv": "PEG"}, {"t": "PEG", "amt": peg, "conv": "pUSD"}])
        # a huge request and a tiny one in the same block: the tiny one's share of the bank rounds to 0 (it keeps its whole input)
        s.convert(h - 1, whale, "pFCT", 500000 * 10**8, "PEG", track=False)          # asks for 15,000,000 PEG
        s.convert(h - 1, us[3], "pUSD", 2, "PEG", track=False)                        # asks for 40 units: 40 * bank / total < 1
        s.tip(21)
        docs.append((s.s["name"], s.doc()))
    return docs


def main():
    t0 = time.time()
    tier = vlib.tier()
    seed = vlib.seed()
    work = vlib.scratch("c03-")
    try:
        mcres = mc.run("C03", tier)
        n, users = (6, 10) if tier == "quick" else (40, 14)
        docs = family(seed, n, users)
        results = ledger.run_all(docs, work)
        stats = ledger.validate(results, work)

        def corrupt(ev):
            for e in ev:
                if e["ev"] == "Block" and e["in"]["entries"]:
                    a = e["in"]["entries"][0]["txs"][0]["a"]
                    e["obs"]["bal"][a]["PEG"] = [1] + e["obs"]["bal"][a]["PEG"]
                    return
        ledger.self_test(next(r for r in results if r.rc == 0), work, corrupt)
        return ledger.finish(PID, results, stats, {"C03"}, t0, mc=mcres,
                             rule="seeded batches (1-3 transactions, transfers/conversions mixed, amounts at and around the "
                                  "available balance, several scales) applied by the real node; each block validated by TLC "
                                  "against LedgerBlock.tla (funds check in two passes, all-or-nothing effects); "
                                  "non-trivial = scenario containing at least one rejected and one executed batch",
                             samples=[ledger.sample_of(r) for r in results[:2]],
                             assumptions=["fake factomd serves exactly the generated chain", "TLC and the Big.tla arithmetic"])
    finally:
        shutil.rmtree(work, ignore_errors=True)


if __name__ == "__main__":
    vlib.main(main)

#!/usr/bin/env python3
"""C10 Fault transparency: transient upstream / storage errors never change the result (fault enumeration)."""
import json, os, random, re, shutil, sys, time
sys.path.insert(0, os.path.dirname(os.path.abspath(__file__)))
import vlib, scen
import c02

PID = "C10"


def main():
    try:
        return main2()
    except c02.RefPartial as e:
        raise vlib.Infra("no fault-free reference: %s" % e)      # C02's verdict, not C10's


def main2():
    t0 = time.time()
    tier, seed = vlib.tier(), vlib.seed()
    work = vlib.scratch("c10-")
    try:
        mc = c02.mc_sync(tier)
        vh = vlib.go_build("vh", "vh")
        rnd = random.Random(seed * 13 + 1)
        s = scen.rich_chain(seed, long=(tier != "quick"))
        doc = s.doc()
        runs = []
        if tier == "quick":
            rich = [h for h in sorted(s.blocks) if s.blocks[h].get("entries")]
            runs.append(("stmt", "stmtfault", [rnd.choice(rich)] if False else [], 9, rnd.randrange(9), 3))
            runs.append(("req", "reqfault", [rnd.choice(rich)], 3, rnd.randrange(3), 3))
        else:
            runs.append(("stmt", "stmtfault", sorted(s.blocks), 0, 0, 4))
            runs.append(("req", "reqfault", sorted(s.blocks), 0, 0, 4))
        runs = [r + (doc,) for r in runs]
        # the payout block of a chain with stakers (snapshot rotation, staking and developer payouts): every statement (quick: of
        # one payout block; thorough: of both) fails once
        import c14
        sdoc = c14.chain(seed + 1, 0, "quick").doc()
        sdoc["name"] = "c10-payouts"
        runs.append(("snap", "stmtfault", [288] if tier == "quick" else [144, 288], 0, 0, 2, sdoc))
        # a block of the bank era that executes PEG requests (bank row read and written, yields, refunds): every statement fails once
        import c16
        bch = c16.chain(seed + 2, 1, "quick")
        bdoc = bch.doc()
        bdoc["name"] = "c10-bank"
        bh = bdoc["sched"]["V4"] + 2
        runs.append(("bank", "stmtfault", [bh] if tier == "quick" else [bh - 4, bh, bh + 1], 0, 0, 2, bdoc))
        open_f = vlib.open_findings(PID)
        viol, known, nexp, states, samples, deaths = [], {}, 0, 0, [], {}
        for (name, mode, full, stride, off, span, doc) in runs:
            path = c02.crash_run(vh, doc, work, name, full, stride, off, span=span, mode=mode)
            evs = [json.loads(l) for l in open(path)]
            if any(e["ev"] == "Infra" for e in evs):
                raise vlib.Infra("experiment infrastructure failure in %s" % name)
            exps = [e for e in evs if e["ev"] == "FaultExp"]
            nexp += len(exps)
            samples += exps[:2]
            r, issues = c02.validate(path)
            states += r.distinct
            bad_lines = {i[0] for i in issues}
            for ln, e in enumerate(evs, 1):
                if e["ev"] != "FaultExp":
                    continue
                if e.get("childrc", 0) != 0:
                    k = "exit %s at %s" % (e["childrc"], e.get("site") or "?")
                    deaths[k] = deaths.get(k, 0) + 1
                if ln in bad_lines or not e.get("equal") or not e.get("resumed") or not e.get("contOK", True):
                    site = e.get("site", "")
                    if e.get("kind") == "req" and e["h"] in (doc["sched"].get("DevRewards"), doc["sched"].get("V202")) and e["k"] == 1:
                        site = "factomd-request <- node.(*Pegnetd).NullifyBurnAddress"      # its own dblock fetch (2nd request of the block)
                        e["site"] = site
                    f = next((f for f in open_f if f.get("signature", {}).get("site") and f["signature"]["site"] in site), None)
                    if f:
                        known[f["id"]] = f
                    else:
                        viol.append((name, e, path))
            if viol:
                keep = os.path.join(vlib.replay_dir(PID), "%s-seed%d.ndjson" % (name, seed))
                shutil.copyfile(path, keep)
                json.dump(doc, open(keep + ".scenario.json", "w"))
        # binding self-test
        evs = [json.loads(l) for l in open(path)]
        for e in evs:
            if e["ev"] == "FaultExp":
                e["equal"] = False
                break
        st = os.path.join(work, "selftest.ndjson")
        open(st, "w").write("\n".join(json.dumps(e) for e in evs) + "\n")
        _, iss2 = c02.validate(st)
        if not iss2:
            raise vlib.Infra("binding self-test failed")
        seen = set()
        for (name, e, p) in viol:
            key = (e.get("site"), e.get("kind"))
            if key in seen:
                continue
            seen.add(key)
            sys.stdout.write("  fault at %s (h=%s k=%s): ledger differs in %s\n" % (e.get("site"), e["h"], e["k"], e.get("diffTables")))
            vlib.violation(PID, os.path.join(vlib.replay_dir(PID), "%s-seed%d.ndjson" % (name, seed)))
        for f in known.values():
            vlib.known(PID, f["what"])
        vlib.write_evidence(PID, "fault_enumeration", {
            "evaluations": nexp, "distinct_nontrivial": nexp,
            "rule": "one experiment per (block, SQL event k) resp. (block, upstream request i): the real daemon applies the block from the reference database, "
                    "event k / request i fails once with an injected error, the daemon must retry and commit; it is then resumed and the canonical dump compared "
                    "with the fault-free run; every experiment is replayed through Sync.tla by TLC (FailInBlock / FailInsertSynced / FailCommit). quick: every "
                    "9th statement and every 3rd request of all blocks plus all requests of one block, every statement of a payout block (snapshot rotation, "
                    "staking and developer payouts) and of a bank-era block that executes PEG requests; thorough: every statement and request of every block. "
                    "Failing experiments are classified by the call site of the failed operation (innermost two pegnetd frames).",
            "samples": samples[:3], "exhaustive": tier == "thorough",
            "states": mc["states"] + states, "transitions": mc["transitions"] + states, "traces_validated_against_impl": nexp,
            "daemon_exits_on_fault": deaths, "known_findings_hit": sorted(known), "mc": mc,
        }, time.time() - t0, violations=len(seen),
            assumptions=["faults are transient (fail once); a daemon that exits on a fault is restarted once by a supervisor (counted in daemon_exits_on_fault)"])
        if c02.STALLED and not viol:
            raise vlib.Infra("the fault-free run stalled (%s): no verdict" % (c02.STALLED[:2],))
        return 1 if viol else 0
    finally:
        shutil.rmtree(work, ignore_errors=True)


if __name__ == "__main__":
    vlib.main(main)

"""Abstract scenario construction for the ledger checks.

Scenarios are the JSON documents consumed by `vh run` (harness/gen/scenario.go).
Nothing here is an oracle: the small balance tracker only helps to aim amounts at the
interesting places (exactly the balance, one more, ...). All verdicts come from TLC.
"""
import copy, json, random

NEVER = 1 << 30

# Everything of the live protocol active from the first blocks; PIP10 / mint optional.
LIVE = {"Pegnet": 0, "GradingV2": 1, "TxConv": 1, "PEGPricing": 1, "OneWaypFCT": 1, "ConvLimit": 1,
        "PEGFloat": 1, "V4": 1, "RCDe": 1, "V20": 1, "DevRewards": 2, "SprSig": 2, "V202": 3,
        "OneWaySmall": 3}

# All eras compressed into ~200 blocks (DESIGN.md 3.3, schedule S0)
S0 = {"Pegnet": 0, "GradingV2": 3, "TxConv": 6, "PEGPricing": 8, "OneWaypFCT": 10, "ConvLimit": 12,
      "PEGFloat": 12, "V4": 16, "RCDe": 16, "V20": 140, "DevRewards": 150, "SprSig": 150, "V202": 170,
      "OneWaySmall": 170, "V204": 180, "V204Burn": 184, "PIP10": 190}

ASSETS = ["PEG", "pUSD", "pFCT", "pXBT", "pDCR"]
RATES = {"PEG": 5000000, "pUSD": 100000000, "pXBT": 900000000000, "pFCT": 150000000, "pDCR": 2000000000}
MINERS = ["M%d" % i for i in range(1, 26)]

ALL_TICKERS = ["PEG", "pUSD", "pEUR", "pJPY", "pGBP", "pCAD", "pCHF", "pINR", "pSGD", "pCNY", "pHKD", "pKRW", "pBRL", "pPHP", "pMXN", "pXAU",
               "pXAG", "pXBT", "pETH", "pLTC", "pRVN", "pXBC", "pFCT", "pBNB", "pXLM", "pADA", "pXMR", "pDASH", "pZEC", "pDCR", "pAUD", "pNZD",
               "pSEK", "pNOK", "pRUB", "pZAR", "pTRY", "pEOS", "pLINK", "pATOM", "pBAT", "pXTZ", "pHBAR", "pNEO", "pCRO", "pETC", "pONT",
               "pDOGE", "pVET", "pHT", "pALGO", "pDGB", "pAED", "pARS", "pTWD", "pRWF", "pKES", "pUGX", "pTZS", "pBIF", "pETB", "pNGN"]


def distinct_rates(assets, peg=5 * 10**6):
    """A different rate for every asset (so that any mix-up between two assets changes a USD value)."""
    r = {t: (i + 3) * 10**7 + i * 12347 for i, t in enumerate(ALL_TICKERS) if t in assets}
    r["pUSD"] = 10**8
    r["PEG"] = peg
    return r


SMALLCAPS = {"PEG", "pDCR", "pDGB", "pDOGE", "pHBAR", "pONT", "pRVN", "pBAT", "pALGO", "pBIF", "pETB",
             "pKES", "pNGN", "pRWF", "pTZS", "pUGX"}


def act(sched, k):
    return sched.get(k, NEVER)


def rates_str(r):
    return {k: str(v) for k, v in r.items()}


class Scn:
    """Scenario under construction with a rough balance tracker."""

    def __init__(self, name, sched=None, assets=None, seed=1, avg=4, keys=None):
        self.s = {"name": name, "sched": dict(sched or LIVE), "avgPeriod": avg, "seed": seed,
                  "assets": list(assets or ASSETS), "keys": dict(keys or {}), "tip": 0, "blocks": []}
        self.blocks = {}
        self.bal = {}          # (addr, asset) -> int (tracker)
        self.pending = []      # conversions waiting: (addr, src, amt, dst)
        self.rated = {}        # h -> rates
        self.n = 0

    # ---- structure
    def sched(self, k):
        return act(self.s["sched"], k)

    def key(self, name, typ="ed"):
        self.s["keys"][name] = typ
        return name

    def block(self, h):
        if h not in self.blocks:
            self.blocks[h] = {"h": h}
        self.s["tip"] = max(self.s["tip"], h)
        return self.blocks[h]

    def tip(self, h):
        self.s["tip"] = max(self.s["tip"], h)

    def eid(self, prefix="e"):
        self.n += 1
        return "%s%d" % (prefix, self.n)

    def control(self, **kw):
        self.s.setdefault("control", {}).update(kw)

    def doc(self):
        d = copy.deepcopy(self.s)
        d["blocks"] = [self.blocks[h] for h in sorted(self.blocks)]
        return d

    # ---- tracker
    def B(self, a, t):
        return self.bal.get((a, t), 0)

    def add(self, a, t, v):
        self.bal[(a, t)] = self.B(a, t) + v

    # ---- block content
    def grade(self, h, rates=None, opr=True, spr=True, stakers=None, n=25, pay=True, opr_alt=None, spr_alt=None,
              spr_rates=None):
        """Put a full set of OPR (and SPR) records into block h. Tracker: rewards + executes pending."""
        b = self.block(h)
        r = dict(RATES)
        if rates:
            r.update(rates)
        sch = self.s["sched"]
        v20 = h >= act(sch, "V20")
        if opr:
            b["opr"] = {"n": n, "rates": rates_str(r)}
            if opr_alt:
                b["opr"]["alt"] = opr_alt
            if pay and n >= 25:
                for m in MINERS:
                    self.add(m, "PEG", (360 if v20 else 200) * 10**8)   # tracker only (v2+: 25 winners)
        if spr and v20:
            sr = dict(r)
            if spr_rates:
                sr.update(spr_rates)
            b["spr"] = {"n": n, "rates": rates_str(sr), "stakers": list(stakers or MINERS)}
            if spr_alt:
                b["spr"]["alt"] = spr_alt
        if opr or (spr and v20):
            self.rated[h] = r
            # tracker: pending conversions execute now (no averaging, no admission rules)
            for (a, src, amt, dst) in self.pending:
                if self.B(a, src) >= amt and r.get(src, 0) and r.get(dst, 0):
                    self.add(a, src, -amt)
                    self.add(a, dst, amt * r[src] // r[dst])
            self.pending = []
        return b

    def entry(self, h, signer, txs, id=None, **kw):
        """txs: list of dicts {t, amt, conv} or {t, amt, to:[(addr, amt)...]}; amounts ints."""
        b = self.block(h)
        e = {"id": id or self.eid(), "signer": signer, "txs": []}
        for t in txs:
            x = {"t": t["t"], "amt": str(t["amt"])}
            if "a" in t:
                x["a"] = t["a"]
            if t.get("conv"):
                x["conv"] = t["conv"]
            else:
                x["to"] = [[a, str(v)] for (a, v) in t.get("to", [])]
            e["txs"].append(x)
        e.update(kw)
        b.setdefault("entries", []).append(e)
        return e

    def dup(self, h, of, id=None, **kw):
        b = self.block(h)
        e = {"id": id or self.eid("d"), "signer": "", "txs": [], "dupOf": of}
        e.update(kw)
        b.setdefault("entries", []).append(e)
        return e

    def transfer(self, h, frm, asset, outs, track=True, **kw):
        total = sum(v for _, v in outs)
        e = self.entry(h, frm, [{"t": asset, "amt": total, "to": outs}], **kw)
        if track and self.B(frm, asset) >= total and not kw.get("mut"):
            self.add(frm, asset, -total)
            for a, v in outs:
                if not ((a == "BURN" and h >= self.sched("V202")) or (a == "OLDBURN" and h < self.sched("V202"))):
                    self.add(a, asset, v)
        return e

    def convert(self, h, who, src, amt, dst, track=True, **kw):
        e = self.entry(h, who, [{"t": src, "amt": amt, "conv": dst}], **kw)
        if track and not kw.get("mut"):
            self.pending.append((who, src, amt, dst))
        return e

    def burn(self, h, who, amt, shape="ok"):
        b = self.block(h)
        b.setdefault("burns", []).append({"a": who, "amt": str(amt), "shape": shape})
        if shape == "ok" and h < self.sched("V20"):
            self.add(who, "pFCT", amt)


def live_preamble(s, users, first=4, fund_peg=2000 * 10**8, rounds=3):
    """Mine `rounds` blocks (OPR only first so that holders exist, then OPR+SPR), then hand PEG to users.
    Returns the next free height."""
    h = first
    s.grade(h, spr=False)
    h += 1
    for _ in range(rounds - 1):
        s.grade(h)
        h += 1
    # fund users from distinct miners
    for i, u in enumerate(users):
        m = MINERS[i % len(MINERS)]
        s.grade(h) if h not in s.blocks else None
        if s.B(m, "PEG") < fund_peg:
            raise ValueError("preamble: miner %s cannot fund %d (has %d); use more rounds or a smaller amount" % (m, fund_peg, s.B(m, "PEG")))
        s.transfer(h, m, "PEG", [(u, fund_peg)])
        if (i + 1) % len(MINERS) == 0:
            h += 1
    if h not in s.blocks or "opr" not in s.blocks[h]:
        s.grade(h)
    return h + 1


def write(doc, path):
    with open(path, "w") as f:
        json.dump(doc, f)


def rich_chain(seed, name="rich", long=True):
    """A structurally rich live-era chain used by the process-level checks (C01 C02 C09 C10):
    mining, funding transfers, conversions executed from holding (also across an unrated block),
    rejected batches, transfer to the burn address, the 2.0.2 burn-address zeroing, mint and
    mint-burn, PIP-10 activation, two snapshots with staking + developer payouts (long=True)."""
    rnd = random.Random(seed * 7919 + 11)
    sched = dict(LIVE)
    sched.update({"V202": 20, "OneWaySmall": 20, "V204": 24, "V204Burn": 27, "PIP10": 30})
    s = Scn(name, sched=sched, seed=seed, avg=4)
    users = [s.key("A%d" % i, "rcde" if i % 3 == 0 else "ed") for i in range(1, 7)]
    h = live_preamble(s, users, fund_peg=rnd.choice([600, 900, 1200]) * 10**8)
    for u in users:
        b = s.B(u, "PEG")
        s.convert(h, u, "PEG", b // rnd.choice([3, 4, 5]), "pUSD")
    s.convert(h, users[0], "PEG", 10**8, "pXBT")
    s.grade(h); h += 1
    h += 1                                  # unrated block: held conversions wait
    s.grade(h)                              # they execute here
    s.transfer(h, users[1], "pUSD", [("BURN", 12345), (users[2], 1000)])       # before 2.0.2: BURN is credited
    s.transfer(h, users[2], "pUSD", [(users[3], s.B(users[2], "pUSD") + 10**12)])  # rejected: insufficient
    s.entry(h, users[3], [{"t": "pUSD", "amt": 500, "to": [(users[4], 500)]}, {"t": "PEG", "amt": 10**7, "conv": "pXBT"}])
    h += 1
    s.grade(h); h += 1
    s.grade(19)
    s.grade(20)                             # 2.0.2: BURN zeroed
    s.transfer(20, users[4], "pUSD", [("BURN", 777)])                          # destroyed from 2.0.2 on
    s.convert(20, users[5], "pUSD", 1000, "pDCR")                              # one-way small asset: refused (-5)
    s.grade(21)
    s.grade(24)                             # mint
    s.grade(27)                             # burn of the minted remainder
    for hh in range(28, 34):
        s.grade(hh)                         # PIP-10 from 30 with a full averaging window
    s.convert(31, users[0], "pUSD", 5000, "pXBT")
    s.transfer(32, users[1], "PEG", [(users[0], 10**8)])
    tip = 34
    if long:
        s.grade(143)
        s.grade(144)                        # first snapshot (nothing to pay yet) + developer payout
        s.transfer(144, users[2], "pUSD", [(users[3], 100)])
        s.grade(145)
        s.grade(287)
        s.grade(288)                        # second snapshot: staking payout + developer payout
        s.convert(288, users[1], "pUSD", 300, "pXBT")
        s.grade(289)
        tip = 290
    s.tip(tip)
    s.s["assets"] = list(ASSETS)
    return s


def ill_sum(s, rnd, h, u, t, v1, v2, variant=None):
    """A signed, canonically encoded transfer whose outputs do not add up to its input (fat2 Validate must refuse it): the sum wraps
    around 2^64 back to the input (three or four outputs, each below 2^63), or is off by one either way. Never executed."""
    bal = s.B(u, t)
    inp = rnd.choice([100, max(1, bal // 2), 1, max(1, bal)])
    variant = variant or rnd.choice(["wrap3", "wrap4", "plus1", "minus1", "wrap3", "huge", "hugeconv"])
    if variant == "huge":          # adds up, but the input does not fit a signed 64-bit integer (no balance could ever cover it)
        inp = rnd.choice([2**63, 2**63 + 12345, 2**64 - 1])
        return s.entry(h, u, [{"t": t, "amt": inp, "to": [(v1, inp)]}])
    if variant == "hugeconv":
        return s.entry(h, u, [{"t": t, "amt": rnd.choice([2**63, 2**64 - 1]), "conv": "pUSD" if t != "pUSD" else "pXBT"}])
    if variant == "wrap3":
        outs = [(v1, 2**63 - 1), (v2, 2**63 - 1), (v1, inp + 2)]
    elif variant == "wrap4":
        outs = [(v1, 2**62), (v2, 2**62), (v1, 2**62), (v2, 2**62 + inp)]
    elif variant == "plus1":
        outs = [(v1, inp), (v2, 1)]
    else:
        outs = [(v1, max(0, inp - 1))] if inp > 1 else [(v1, 0), (v2, 0)]
    return s.entry(h, u, [{"t": t, "amt": inp, "to": outs}])


def self_return(s, rnd, h, u, t, v, k=None):
    """Two transactions drawing on one balance, the first returning part of its input to the sender: [u -> {u: r, v: bal-r}, u -> {v: k}].
    After the first only r is left, so the batch is executed iff k <= r (funds check with the mid-batch credit)."""
    bal = s.B(u, t)
    if bal < 4:
        return s.transfer(h, u, t, [(v, bal)])
    r = rnd.choice([1, 2, bal // 3])
    k = k if k is not None else rnd.choice([r, r + 1, bal, max(1, r - 1), bal // 2 + r])
    e = s.entry(h, u, [{"t": t, "amt": bal, "to": [(u, r), (v, bal - r)]}, {"t": t, "amt": k, "to": [(v, k)]}])
    if k <= r:
        s.add(u, t, -(bal - r) - k)
        s.add(v, t, bal - r + k)
    return e


def mixed_chain(seed, name="mixed", blocks=14, users=6, sched=None, unrated_p=0.25, assets=None, pip10=None,
                burn_out=True, null_out=False, avg=4, start=None, odd_shapes=True):
    """Random traffic in the live era: transfers (1-3 outputs, some to the burn address), conversions
    between pUSD/pXBT/pFCT/pDCR/PEG (admissible and not), multi-transaction batches, on a chain with
    randomly unrated blocks. Returns the Scn."""
    rnd = random.Random(seed * 31337 + 7)
    sc = dict(sched or LIVE)
    if pip10:
        sc["PIP10"] = pip10
    s = Scn(name, sched=sc, seed=seed, avg=avg, assets=assets)
    us = [s.key("A%d" % i, "rcde" if rnd.random() < 0.25 else "ed") for i in range(1, users + 1)]
    h = live_preamble(s, us, first=start or 4, fund_peg=rnd.choice([300, 900, 1200]) * 10**8)
    for u in us:
        b = s.B(u, "PEG")
        s.entry(h, u, [{"t": "PEG", "amt": b // 3, "conv": "pUSD"}, {"t": "PEG", "amt": b // 5, "conv": "pXBT"}])
        s.pending.append((u, "PEG", b // 3, "pUSD")); s.pending.append((u, "PEG", b // 5, "pXBT"))
    s.grade(h); h += 1
    s.grade(h); h += 1
    dests = ["pUSD", "pXBT", "pFCT", "pDCR", "PEG"]
    for _ in range(blocks):
        rated = rnd.random() >= unrated_p
        if rated:
            drift = {"pXBT": RATES["pXBT"] + rnd.randint(-5, 5) * 10**9, "PEG": RATES["PEG"] + rnd.randint(-3, 3) * 10**4}
            s.grade(h, rates=drift)
        for u in us:
            if rnd.random() < 0.55:
                continue
            kind = rnd.choice(["xfer", "xfer", "conv", "conv", "multi", "burn" if burn_out else "xfer", "null" if null_out else "xfer",
                               "illsum" if odd_shapes else "xfer", "selfret" if odd_shapes else "conv"])
            t = rnd.choice(["PEG", "pUSD", "pXBT"])
            bal = s.B(u, t)
            amt = max(0, rnd.choice([bal // 2, bal // 3, bal, bal + 1, rnd.randint(0, max(1, bal))]))
            if kind == "xfer":
                n = rnd.randint(1, 3)
                parts = [amt // n] * n
                parts[0] += amt - sum(parts)
                s.transfer(h, u, t, [(rnd.choice(us), p) for p in parts])
            elif kind == "burn":
                s.transfer(h, u, t, [("BURN", amt // 2), (rnd.choice(us), amt - amt // 2)])
            elif kind == "null":
                s.transfer(h, u, t, [("OLDBURN", amt // 2), (rnd.choice(us), amt - amt // 2)])
            elif kind == "illsum":
                ill_sum(s, rnd, h, u, t, rnd.choice(us), rnd.choice(us))
            elif kind == "selfret":
                self_return(s, rnd, h, u, t, rnd.choice([x for x in us if x != u]))
            elif kind == "conv":
                d = rnd.choice([x for x in dests if x != t])
                s.convert(h, u, t, amt, d, track=(d in ("pUSD", "pXBT") and not (d == "PEG")))
            else:
                d = rnd.choice(["pUSD", "pXBT"])
                if d == t:
                    d = "pUSD" if t != "pUSD" else "pXBT"
                a1 = amt // 2
                s.entry(h, u, [{"t": t, "amt": a1, "to": [(rnd.choice(us), a1)]}, {"t": t, "amt": amt - a1, "conv": d}])
        h += 1
    s.grade(h); h += 1
    s.grade(h)
    s.tip(h)
    return s


# All eras in ~45 blocks (snapshots, being tied to multiples of 144, are covered by the live-era chains)
LEG = {"Pegnet": 0, "GradingV2": 3, "TxConv": 5, "PEGPricing": 7, "OneWaypFCT": 9, "ConvLimit": 12, "PEGFloat": 12,
       "V4": 16, "RCDe": 16, "V20": 22, "DevRewards": 26, "SprSig": 26, "V202": 30, "OneWaySmall": 30,
       "V204": 34, "V204Burn": 37, "PIP10": 40}


def legacy_chain(seed, name="legacy", tip=44, peg_requests=True):
    """A chain through every era: FCT burns, V1..V5 OPRs, PEG priced 0 / by equation / floating,
    one-way pFCT, the PEG conversion bank (per height before V4, pooled with bank rows from V4),
    then 2.0 with SPRs, developer zeroing, 2.0.2, mint, mint burn, PIP-10."""
    rnd = random.Random(seed * 15485863 + 3)
    s = Scn(name, sched=LEG, seed=seed, avg=4)
    users = [s.key("A%d" % i, "ed") for i in range(1, 6)] + [s.key("E1", "rcde")]
    fund = rnd.choice([50, 200, 1000]) * 10**8
    for h in range(1, tip + 1):
        v20 = h >= LEG["V20"]
        n = 10 if h < LEG["GradingV2"] else 25
        rates = {"PEG": RATES["PEG"] + (h % 5) * 10**4, "pXBT": RATES["pXBT"] + (h % 7) * 10**9}
        if rnd.random() < 0.85 or h in (1, 2, 5, 12, 16, 22, 26, 30):
            s.grade(h, rates=rates, n=n, spr=v20 and h >= LEG["V20"] + 2)
        if h < LEG["V20"]:
            for u in users[:5]:
                if rnd.random() < 0.4 or h <= 3:
                    s.burn(h, u, rnd.choice([fund, fund // 3, 12345]))
            shapes = ["hasFctOut", "ecAmt", "twoInputs", "wrongEc", "noEc", "twoEc"]
            if h <= len(shapes):
                s.burn(h, users[1], 70000 + h, shape=shapes[h - 1])        # every factoid transaction shape that is NOT a burn, once
            if rnd.random() < 0.3:
                s.burn(h, users[0], 777, shape=rnd.choice(shapes))
        if h >= LEG["TxConv"]:
            for u in users:
                if u == "E1" and h <= LEG["RCDe"]:
                    continue
                r = rnd.random()
                if r < 0.35:
                    t = rnd.choice(["pFCT", "pUSD", "pXBT", "PEG"])
                    b = s.B(u, t)
                    if b > 0:
                        s.transfer(h, u, t, [(rnd.choice(users), max(1, b // rnd.choice([2, 3, 10])))])
                elif r < 0.7:
                    t = rnd.choice(["pFCT", "pUSD", "pXBT", "PEG"])
                    d = rnd.choice([x for x in ["pUSD", "pXBT", "pFCT", "PEG"] if x != t])
                    if d == "PEG" and not peg_requests:
                        d = "pUSD" if t != "pUSD" else "pXBT"
                    b = s.B(u, t)
                    if b > 0:
                        ok = not (d == "pFCT" and h >= LEG["OneWaypFCT"]) and d != "PEG"
                        s.convert(h, u, t, max(1, b // rnd.choice([2, 4, 9])), d, track=ok)
    s.tip(tip)
    return s


def snapshot_gap_chain(seed, name="snapgap", at=288, pip10=None):
    """Live era: conversions are pending while a staking-snapshot height (multiple of 144, >= 2.0.2) records no rates.
    The pending conversions must wait for the next rated block (and the snapshot payout uses the latest earlier rates)."""
    rnd = random.Random(seed * 2741 + 5)
    sc = dict(LIVE)
    if pip10:
        sc["PIP10"] = pip10
    s = Scn(name, sched=sc, seed=seed, avg=4)
    users = [s.key("A%d" % i) for i in range(1, 5)]
    h = live_preamble(s, users, fund_peg=1000 * 10**8)
    for u in users:
        s.convert(h, u, "PEG", 200 * 10**8, "pUSD")
    s.grade(h); h += 1
    s.grade(h)
    for hh in (143, 144, 145):
        s.grade(hh)
    r1 = {"PEG": RATES["PEG"] + 10**5, "pXBT": RATES["pXBT"] - 10**9}
    r2 = {"PEG": RATES["PEG"] - 2 * 10**5, "pXBT": RATES["pXBT"] + 3 * 10**9}
    s.grade(at - 3, rates=r1)
    s.grade(at - 2, rates=r1)
    s.convert(at - 2, users[0], "pUSD", rnd.randint(1, 10**9), "pXBT", track=False)      # executes at at-1
    s.grade(at - 1, rates=r1)
    s.convert(at - 1, users[1], "pUSD", rnd.randint(1, 10**9), "pXBT", track=False)      # must wait: `at` has no rates
    s.convert(at - 1, users[2], "PEG", 10**8, "pUSD", track=False)
    s.block(at)                                                                           # snapshot height without OPR / SPR
    s.convert(at, users[3], "pUSD", 12345, "pXBT", track=False)                           # submitted in the unrated block
    s.transfer(at, users[0], "PEG", [(users[1], 1000)], track=False)
    s.grade(at + 1, rates=r2)                                                             # everything pending executes here, at r2
    s.grade(at + 2, rates=r2)
    s.tip(at + 3)
    return s


def peg_window_chain(seed, name="pegwin", dups=True):
    """All-era schedule, focused on the bank-limited PEG conversions: requests in (almost) every block of
    [ConvLimit, V20), unrated blocks in between (per-height sets before V4), copies of pending requests inside the
    unrated blocks, and requests submitted in the last blocks before 2.0 (which must be refused from 2.0 on)."""
    rnd = random.Random(seed * 3571 + 9)
    L = LEG
    s = Scn(name, sched=L, seed=seed, avg=4, assets=["PEG", "pUSD", "pFCT", "pXBT"])
    users = [s.key("A%d" % i) for i in range(1, 7)]
    unrated = {13, 14, 18, 23}
    for h in range(1, 28):
        n = 10 if h < L["GradingV2"] else 25
        if h not in unrated:
            s.grade(h, n=n, spr=h >= L["V20"] + 2)
        if h <= 3:
            for u in users:
                s.burn(h, u, 500 * 10**8)
        if h == L["TxConv"]:
            for u in users:
                s.convert(h, u, "pFCT", 200 * 10**8, "pUSD", track=False)
        if L["ConvLimit"] - 1 <= h <= L["V20"]:
            ids = []
            for i, u in enumerate(users):
                # one request per address within any holding window (so that each address's PEG delta is one request's effect)
                if (h % 3) == (i % 3) and (h // 3) % 2 == (i // 3) % 2:
                    e = s.convert(h, u, rnd.choice(["pFCT", "pUSD"]), rnd.randint(1, 30) * 10**8, "PEG", track=False)
                    ids.append(e["id"])
            if dups and h + 1 in unrated and ids:
                s.dup(h + 1, ids[0])
                s.dup(h + 1, ids[-1])
    s.tip(28)
    return s

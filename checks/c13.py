#!/usr/bin/env python3
"""C13 Conversion admission rules by height."""
import os, random, sys
sys.path.insert(0, os.path.dirname(os.path.abspath(__file__)))
import vlib, scen, lcheck

PID = "C13"
CLS = ["PEG", "pUSD", "pFCT", "pXBT", "pDCR"]     # PEG, USD, one-way pFCT, normal, small-cap


def live(seed, k, tier):
    rnd = random.Random(seed * 31 + k)
    B = rnd.choice([12, 13])
    pip = B + rnd.choice([3, 4])
    s = scen.Scn("c13-live-%d" % k, sched=dict(scen.LIVE, V202=B, OneWaySmall=B, PIP10=pip), seed=seed * 10 + k, avg=4,
                 assets=["PEG", "pUSD", "pFCT", "pXBT", "pDCR"])
    users = [s.key("A%d" % i) for i in range(1, 9)]
    h = scen.live_preamble(s, users, fund_peg=1200 * 10**8)
    for u in users:     # fund every convertible asset while it is still allowed
        s.entry(h, u, [{"t": "PEG", "amt": 200 * 10**8, "conv": "pUSD"}, {"t": "PEG", "amt": 200 * 10**8, "conv": "pXBT"},
                       {"t": "PEG", "amt": 200 * 10**8, "conv": "pDCR"}])
    s.grade(h); h += 1
    zero_dcr_at = rnd.choice([B + 1, B + 2]) + 1
    # after PIP-10: pXBT zero-rated for three rated heights in a row (AveragePeriod 4, at least 2 usable values required), so that
    # at the next heights its rate is back while its average is still unavailable: conversions into and out of it must be refused
    # (and leave balances untouched) until two non-zero rates are in the window again
    zrun = (pip + 5, pip + 6, pip + 7)
    while h <= pip + 10:
        # a zero rate (OPR outside the 25% band of the SPR) for pDCR / pXBT at one height after 2.0.2
        if k % 2 == 1 and h == pip + 8:
            pass        # an unrated height right after the zero run: the window is reloaded by height and is SHORTER than the period,
                        # missing heights and zero rates together still leave fewer than half usable values
        elif h == zero_dcr_at or h in zrun:
            s.grade(h, rates={"pXBT": scen.RATES["pXBT"] * 2}, spr_rates={"pXBT": scen.RATES["pXBT"]})
        else:
            s.grade(h)
        for u in users:
            if rnd.random() < (0.8 if tier == "quick" else 0.95):
                src = rnd.choice(CLS)
                dst = rnd.choice([c for c in CLS if c != src])
                s.convert(h, u, src, rnd.choice([1000, 10**6, 3 * 10**8]), dst, track=False)
        if h >= 9:
            # from 2.0 on a batch that contains a conversion into PEG is refused as a whole, whatever else it contains and in whatever order
            u = users[4 + h % 3]
            mixes = [[{"t": "pUSD", "amt": 1000, "to": [(users[0], 1000)]}, {"t": "pUSD", "amt": 2000 + h, "conv": "PEG"}],
                     [{"t": "pUSD", "amt": 3000 + h, "conv": "PEG"}, {"t": "pUSD", "amt": 1000, "to": [(users[0], 1000)]}],
                     [{"t": "pUSD", "amt": 1500, "conv": "pXBT"}, {"t": "pUSD", "amt": 2500 + h, "conv": "PEG"}],
                     [{"t": "pUSD", "amt": 2600 + h, "conv": "PEG"}, {"t": "pUSD", "amt": 1500, "conv": "pXBT"}]]
            for j, mx in enumerate(mixes):
                s.entry(h, users[4 + (h + j) % 4], mx)
        if h >= pip + 4:
            # directed probes (own batches, small amounts, funded): into / out of the asset whose average is unavailable, and a control pair
            for (u, src, dst) in ((users[0], "pUSD", "pXBT"), (users[1], "pXBT", "pUSD"), (users[2], "PEG", "pXBT"), (users[3], "pUSD", "pDCR" if h < B else "PEG")):
                if not (dst == "PEG"):
                    s.convert(h, u, src, 1000 + h, dst, track=False)
        h += 1
    s.grade(h); s.tip(h)
    # the ledger-level read methods of the API (rich lists of every asset, issuance, rates) are called after every block of the
    # PIP-10 part: reads may not change which conversions are admissible
    s.control(api=True, apiLight=list(range(pip, h)))
    return s


def legacy(seed, k, tier):
    rnd = random.Random(seed * 37 + k)
    s = scen.Scn("c13-leg-%d" % k, sched=scen.LEG, seed=seed * 10 + k, avg=4, assets=["PEG", "pUSD", "pFCT", "pXBT", "pDCR"])
    users = [s.key("A%d" % i) for i in range(1, 9)]
    L = scen.LEG
    for h in range(1, 36):
        n = 10 if h < L["GradingV2"] else 25
        s.grade(h, n=n, spr=h >= L["V20"] + 2)
        if h < L["V20"] and (h <= 6 or rnd.random() < 0.3):
            for u in users:
                s.burn(h, u, 3000 * 10**8)
        if h == L["TxConv"] or h == L["TxConv"] + 1:
            for u in users:
                s.entry(h, u, [{"t": "pFCT", "amt": 300 * 10**8, "conv": "pUSD"}, {"t": "pFCT", "amt": 300 * 10**8, "conv": "pXBT"},
                               {"t": "pFCT", "amt": 300 * 10**8, "conv": "pDCR"}, {"t": "pFCT", "amt": 30 * 10**8, "conv": "PEG"}])
        elif h > L["TxConv"] + 1:
            # systematic: every height, every user; sources rotate over the funded assets, destinations over all classes,
            # so that around every activation each (funded source, destination class) pair is submitted in B-2 .. B+1
            funded = ["pFCT", "pUSD", "pXBT", "pDCR", "PEG"]
            for i, u in enumerate(users):
                src = funded[(i + h) % len(funded)]
                dst = CLS[(i * 2 + h * 3) % len(CLS)]
                if dst == src:
                    dst = CLS[(CLS.index(dst) + 1) % len(CLS)]
                s.convert(h, u, src, rnd.choice([1000, 10**6, 2 * 10**8]), dst, track=False)
    s.tip(36)
    return s


def smallcaps(seed, k=0):
    """Every small-cap asset as a destination (and pFCT, PEG as controls) from two blocks before to two blocks after the
    OneWaySmall / 2.0.2 activation, every asset at a rate of its own; sources of small-cap assets stay convertible."""
    rnd = random.Random(seed * 43 + k)
    B = 12
    assets = ["PEG", "pUSD", "pFCT", "pXBT", "pEUR"] + sorted(scen.SMALLCAPS - {"PEG"})
    rates = scen.distinct_rates(assets)
    s = scen.Scn("c13-smallcaps-%d" % k, sched=dict(scen.LIVE, V202=B, OneWaySmall=B), seed=seed * 10 + 5 + k, avg=4, assets=assets)
    users = [s.key("A%d" % i) for i in range(1, 5)]
    h = 4
    s.grade(h, spr=False, rates=rates); h += 1
    s.grade(h, rates=rates); h += 1
    s.grade(h, rates=rates); h += 1
    s.grade(h, rates=rates)
    for i, u in enumerate(users):
        s.transfer(h, scen.MINERS[i], "PEG", [(u, 1200 * 10**8)])
    h += 1
    s.grade(h, rates=rates)
    for u in users:
        s.entry(h, u, [{"t": "PEG", "amt": 600 * 10**8, "conv": "pUSD"}])
    h += 1
    dests = sorted(scen.SMALLCAPS - {"PEG"}) + ["pFCT", "pEUR"]
    while h <= B + 3:
        s.grade(h, rates=rates)
        if h >= B - 3:
            for j, d in enumerate(dests):
                u = users[j % 2]
                s.convert(h, u, "pUSD", 10**6 + 1000 * h + j, d, track=False)         # one batch per destination
            if h >= B:
                # small-cap SOURCES stay convertible (bought before the activation)
                s.convert(h, users[0], dests[(h * 2) % 15], 1000, "pUSD", track=False)
                s.convert(h, users[1], dests[(h * 2 + 1) % 15], 1000, "pXBT", track=False)
        h += 1
    s.grade(h, rates=rates); s.tip(h)
    return s


def family(seed, tier):
    docs = []
    n = 2 if tier == "quick" else 8
    for k in range(n):
        for f in (live, legacy):
            s = f(seed, k, tier)
            docs.append((s.s["name"], s.doc()))
    sc = smallcaps(seed)
    docs.append((sc.s["name"], sc.doc()))
    return docs


def main():
    return lcheck.run_check(PID, family, {"C13"},
        rule="conversions between every ordered pair of asset classes {PEG, pUSD, pFCT (one-way), normal, small-cap} submitted at every height around the "
             "activations (live schedule: OneWaySmall/2.0.2 and PIP-10; all-era schedule: OneWaypFCT, bank era, 2.0, 2.0.2, PIP-10), with funded and unfunded "
             "sources, every single small-cap ticker as destination and as source around OneWaySmall, and a zero rate produced by an out-of-band asset after 2.0.2; TLC decides each batch from the observed pre-state: executed iff admissible "
             "at the EXECUTION height and funded, otherwise balances untouched; non-trivial = every conversion",
        corrupt=lcheck.corrupt_balance)


if __name__ == "__main__":
    vlib.main(main)

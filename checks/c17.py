#!/usr/bin/env python3
"""C17 History and status tell the truth about the ledger."""
import os, random, sys
sys.path.insert(0, os.path.dirname(os.path.abspath(__file__)))
import vlib, scen, lcheck
import c16

PID = "C17"


def family(seed, tier):
    rnd = random.Random(seed * 839 + 2)
    docs = []
    n = 3 if tier == "quick" else 10
    for k in range(n):
        s = scen.mixed_chain(seed * 40 + k, name="c17-mixed-%d" % k, blocks=9 if tier == "quick" else 14, users=5,
                             pip10=(None if k % 2 else 11), unrated_p=0.3)
        d = s.doc()
        tip = d["tip"]
        d["control"] = {"api": True, "allHist": True, "apiAt": sorted(rnd.sample(range(8, tip), 3))}
        docs.append((d["name"], d))
    g = scen.legacy_chain(seed + 3, name="c17-legacy", tip=26)
    d = g.doc(); d["control"] = {"api": True, "allHist": True, "apiAt": [8, 14, 20]}
    docs.append((d["name"], d))
    # bank era with PEG requests spread over unrated blocks (several arrival heights executed in one block): yields, refunds and
    # statuses in the history must replay to the balances
    sp = c16.chain(seed + 7, 3, tier)
    d = sp.doc(); d["name"] = "c17-bank-spread"; d["control"] = {"api": True, "allHist": True, "apiAt": [14, 19]}
    docs.append((d["name"], d))
    # unconvertible conversions: PIP-10 active before enough rates exist for an average, and an overflowing amount
    # overflowing amount (before PIP-10) ...
    s = scen.Scn("c17-overflow", sched=dict(scen.LIVE), seed=seed, avg=4)
    users = [s.key("A1"), s.key("A2")]
    h = scen.live_preamble(s, users, fund_peg=1000 * 10**8)
    s.grade(h); s.convert(h, "A1", "PEG", 900 * 10**8, "pXBT", track=False); s.convert(h, "A2", "PEG", 10**8, "pUSD", track=False); h += 1
    s.grade(h, rates={"pXBT": 1, "PEG": 10**11}); h += 1        # 9e10 * 1e11 / 1 does not fit into int64
    for _ in range(3):
        s.grade(h); h += 1
    s.tip(h)
    d = s.doc(); d["control"] = {"api": True, "allHist": True}
    docs.append((d["name"], d))
    # ... and PIP-10 active before enough rates exist for an average (average = 0)
    s = scen.Scn("c17-noaverage", sched=dict(scen.LIVE, PIP10=8), seed=seed, avg=12)
    users = [s.key("A1"), s.key("A2")]
    h = scen.live_preamble(s, users, fund_peg=1000 * 10**8)
    s.grade(h); s.convert(h, "A1", "PEG", 10**8, "pUSD", track=False); h += 1
    for _ in range(4):
        s.grade(h); h += 1
    s.tip(h)
    d = s.doc(); d["control"] = {"api": True, "allHist": True}
    docs.append((d["name"], d))
    return docs


def main():
    return lcheck.run_check(PID, family, {"C17"},
        rule="random live-era traffic (with and without PIP-10), an all-era chain and a chain with unconvertible conversions; after every block TLC checks "
             "that each status is an execution height iff the batch's effects were applied (with the credited amounts), a negative code iff rejected without "
             "effect, pending only while the batch can still be considered, and that replaying the history rows that report an execution in this block "
             "(transfers, conversions with refunds, coinbases, burns) plus the scheduled adjustments reproduces every balance; at three seeded heights and at "
             "the tip the REAL API handlers are queried over HTTP (get-transaction-status, get-pegnet-balances, get-transactions by entry hash / address / "
             "height through all pages; in addition, outside C17's statement and reported under the tag API only: get-pegnet-issuance, get-pegnet-rates, get-rich-list, get-bank "
             "against the ledger): each recorded action must be returned exactly once, counts and offsets must be consistent; non-trivial = every chain",
        corrupt=lcheck.corrupt_balance)


if __name__ == "__main__":
    vlib.main(main)

#!/usr/bin/env python3
"""C09 Restart independence: results do not depend on where the daemon was restarted."""
import copy, itertools, json, os, random, shutil, sys, time
sys.path.insert(0, os.path.dirname(os.path.abspath(__file__)))
import vlib, ledger, scen
import c13, findings

PID = "C09"


def pattern_chain(name, seed, pattern, P):
    """A chain whose blocks after the preamble are rated according to `pattern` (list of bools), PIP-10 active,
    one conversion per rated block (priced at the next rated block with min/max of spot and average)."""
    rnd = random.Random(seed)
    s = scen.Scn(name, sched=dict(scen.LIVE, PIP10=9), seed=seed, avg=P)
    users = [s.key("A%d" % i) for i in range(1, 5)]
    h = scen.live_preamble(s, users, fund_peg=1000 * 10**8)
    base = h
    for i, r in enumerate(pattern):
        hh = base + i
        if r:
            # moving spot prices so that spot and average really differ
            s.grade(hh, rates={"PEG": scen.RATES["PEG"] + (i * 7919 % 13 - 6) * 10**5, "pXBT": scen.RATES["pXBT"] + (i * 104729 % 17 - 8) * 10**9})
            u = users[i % len(users)]
            s.convert(hh, u, "PEG", (3 + i) * 10**8, rnd.choice(["pUSD", "pXBT"]), track=False)
    end = base + len(pattern)
    s.grade(end); s.grade(end + 1)
    s.tip(end + 1)
    return s, base


def mc(tier):
    tot = {"states": 0, "transitions": 0, "configs": []}
    for cfg in (["MC_Restart_quick.cfg"] if tier == "quick" else ["MC_Restart_quick.cfg", "MC_Restart_thorough.cfg"]):
        r = vlib.tlc("MC_Restart", cfg=cfg, workers=8, timeout=1200, deadlock=False)
        if not r.ok:
            raise vlib.Infra("MC_Restart %s: %s\n%s" % (cfg, r.violation or r.error, r.out[-1000:]))
        tot["states"] += r.distinct; tot["transitions"] += r.generated
        tot["configs"].append({"cfg": cfg, "distinct": r.distinct, "generated": r.generated})
    r = vlib.tlc("MC_Restart", cfg="MC_Restart_dev.cfg", workers=4, timeout=300, deadlock=False)
    if r.violation != "UsedWindowIsDesign":
        raise vlib.Infra("vacuity guard: reload-by-height deviation not caught by MC_Restart")
    tot["deviation_counterexamples"] = 1
    return tot


def main():
    t0 = time.time()
    tier, seed = vlib.tier(), vlib.seed()
    work = vlib.scratch("c09-")
    try:
        mcres = mc(tier)
        rnd = random.Random(seed * 977 + 1)
        P = 4
        chains = []
        npat = 3 if tier == "quick" else 10
        for k in range(npat):
            L = rnd.randint(7, 10)
            pat = [rnd.random() < 0.7 for _ in range(L)]
            pat[0] = True
            chains.append(pattern_chain("c09-p%d" % k, seed * 100 + k, pat, P) + (pat,))
        m = scen.mixed_chain(seed + 5, name="c09-mixed", blocks=10, pip10=10, unrated_p=0.3)
        chains.append((m, 8, None))
        # a chain that crosses the 2.0.2 activation with transfers to the burn address before and after it (what a process looked up
        # before the activation may not survive it)
        v = scen.mixed_chain(seed + 9, name="c09-v202", blocks=10, sched=dict(scen.LIVE, V202=13, OneWaySmall=13), unrated_p=0.1)
        for hh in sorted(v.blocks):
            if hh >= 9:
                v.transfer(hh, "A1", "PEG", [("BURN", 1000 + hh)], track=False)
        chains.append((v, 8, None))
        # an asset without a usable average for a while, with the ledger-level read methods of the API called after every block:
        # what a reader left in memory may not matter either (a restart after the read forgets it, the uninterrupted run does not)
        z = c13.live(seed + 23, 0, tier)
        z.s["name"] = "c09-zeroavg"
        chains.append((z, z.s["sched"]["PIP10"], None))
        docs, meta = [], {}
        for (s, base, pat) in chains:
            doc = s.doc()
            tip = doc["tip"]
            name = doc["name"]
            variants = [("cont", [])]
            variants.append(("every", list(range(base, tip))))
            single = list(range(base, tip)) if tier != "quick" else rnd.sample(list(range(base, tip)), min(5, tip - base))
            variants += [("at%d" % h, [h]) for h in single]
            if tier != "quick":
                pairs = list(itertools.combinations(range(base, tip), 2))
                variants += [("at%d_%d" % p, list(p)) for p in rnd.sample(pairs, min(12, len(pairs)))]
            for (vn, rs) in variants:
                d = copy.deepcopy(doc)
                d["name"] = "%s-%s" % (name, vn)
                d["control"] = dict(doc.get("control") or {}, restarts=rs)
                docs.append((d["name"], d))
                meta[d["name"]] = (name, vn, rs)
        results = ledger.run_all(docs, work, dump=True)
        stats = ledger.validate(results, work)
        # replica agreement: final ledger of every restarted run == continuous run of the same chain
        ref = {}
        for r in results:
            chain, vn, rs = meta[r.name]
            if vn == "cont":
                ref[chain] = r
        viol, known_hit, diffs = [], {}, 0
        open_f = {f["id"]: f for f in vlib.open_findings(PID)}
        for r in results:
            if r.rc != 0:
                raise vlib.Infra("run %s failed (%s): %s" % (r.name, r.kind, r.err[-300:]))
            chain, vn, rs = meta[r.name]
            c09 = [i for i in r.issues if i[1] == "C09"]
            differs = False
            if vn != "cont":
                a, b = r.last.get("dump", {}), ref[chain].last.get("dump", {})
                tables = sorted(t for t in b if a.get(t) != b.get(t))
                differs = bool(tables)
            if differs or c09:
                diffs += 1
                # known finding: explained by the reload-by-height deviation (TLC accepted the trace only with the cache model)
                # and the concrete signature: an unrated height inside the averaging window at the restart point
                f = open_f.get("C09-avg-window-reload")
                if f and c09 and all(i[1] in ("C09",) for i in r.issues if i[1] not in ("U",)):
                    known_hit[f["id"]] = f
                else:
                    viol.append((r, "ledger after restarts %s differs from the continuous run in %s; C09 issues: %s" % (rs, tables if differs else [], c09[:2])))
        for (r, why) in viol[:10]:
            base = os.path.join(vlib.replay_dir(PID), "%s-seed%d" % (r.name, seed))
            json.dump(r.doc, open(base + ".scenario.json", "w"))
            shutil.copyfile(r.trace, base + ".trace.ndjson")
            open(base + ".why.txt", "w").write(why + "\n")
            vlib.violation(PID, base + ".scenario.json")
        for f in known_hit.values():
            vlib.known(PID, f["what"])
        # binding self-test
        def corrupt(ev):
            for e in ev:
                if e["ev"] == "Block" and e["obs"]["hist"] and any(t["action"] == 2 and t["toAmt"] for b in e["obs"]["hist"] for t in b["txs"]):
                    for b in e["obs"]["hist"]:
                        for t in b["txs"]:
                            if t["action"] == 2 and t["toAmt"]:
                                t["toAmt"] = [t["toAmt"][0] ^ 1] + t["toAmt"][1:]
                                return
        ledger.self_test(ref[chains[0][0].s["name"]], work, corrupt)
        other = {}
        for r in results:
            for i in r.issues:
                if i[1] not in ("C09",):
                    other[i[1]] = other.get(i[1], 0) + 1
        vlib.write_evidence(PID, "model_checking", {
            "states": mcres["states"], "transitions": mcres["transitions"],
            "traces_validated_against_impl": stats["traces"], "trace_states": stats["states"],
            "evaluations": len(results), "distinct_nontrivial": len(results) - len(ref),
            "rule": "chains with seeded rated/unrated patterns around the averaging window (P=4), PIP-10 active, a conversion in every rated block; "
                    "each chain is run continuously, restarted (clean stop/start) after every block, at single heights and (thorough) at pairs; "
                    "final canonical dumps must equal the continuous run and every trace is validated by TLC (averaging window = AvgWindow, a function "
                    "of the recorded rates). MC_Restart exhausts all patterns x restart sets for the cache algorithm.",
            "samples": [{"chain": n, "variant": v, "restarts": rs} for (n, (c, v, rs)) in list(meta.items())[:4]],
            "restart_runs_differing": diffs, "issues_for_other_properties": other, "known_findings_hit": sorted(known_hit), "mc": mcres,
        }, time.time() - t0, violations=len(viol), assumptions=["clean stop = sync loop idle at the tip, context cancelled, database closed"])
        return 1 if viol else 0
    finally:
        shutil.rmtree(work, ignore_errors=True)


if __name__ == "__main__":
    vlib.main(main)

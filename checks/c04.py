#!/usr/bin/env python3
"""C04 Supply conservation: value is created or destroyed only by protocol events."""
import os, sys
sys.path.insert(0, os.path.dirname(os.path.abspath(__file__)))
import vlib, scen, lcheck
import c03, c14

PID = "C04"


def family(seed, tier):
    n = 5 if tier == "quick" else 30
    docs = []
    for k in range(n):
        s = scen.mixed_chain(seed * 50 + k, name="c04-%d" % k, blocks=10 if tier == "quick" else 16,
                             sched=dict(scen.LIVE, V202=12, OneWaySmall=12) if k % 2 else None, pip10=(18 if k % 3 == 0 else None))
        docs.append((s.s["name"], s.doc()))
    g = scen.peg_window_chain(seed, name="c04-pegwin", dups=False)
    docs.append((g.s["name"], g.doc()))
    # bank era: batches that spend PEG around a PEG request whose PEG is only credited in a later pass (a batch that is refused, or that
    # fails the block, must leave no trace: no debit of the request's input, no transfer of the PEG it already held)
    docs += c03.bank_chains(seed, 1 if tier == "quick" else 3, prefix="c04")
    # all eras: FCT burns (and every factoid transaction shape that is not a burn), rewards of every grader version, the PEG bank
    lg = scen.legacy_chain(seed + 3, name="c04-legacy", tip=28)
    docs.append((lg.s["name"], lg.doc()))
    # staking and developer payouts in the same block (cadence heights 144 / 288)
    st = c14.chain(seed + 2, 0, "quick")
    st.s["name"] = "c04-payouts"
    docs.append((st.s["name"], st.doc()))
    r = scen.rich_chain(seed, name="c04-rich", long=(tier != "quick"))
    docs.append((r.s["name"], r.doc()))
    return docs


def main():
    return lcheck.run_check(PID, family, {"C04"},
        rule="random live-era traffic (transfers incl. burn-address outputs before/after 2.0.2, conversions, multi-transaction batches, "
             "unrated blocks, zeroing / mint / staking / developer payouts in the rich chain); after every block the full balance table must equal "
             "the exact effects of that block's enumerated events applied to the previous observed state (TLC, Big arithmetic); "
             "non-trivial = scenario with at least two different batch outcomes",
        corrupt=lcheck.corrupt_balance)


if __name__ == "__main__":
    vlib.main(main)

#!/usr/bin/env python3
"""Replays one artefact named on a VIOLATION line against the current /repo (or VERIF_REPO).

  python3 checks/replay.py /verif/out/<PID>/<artefact>

* <name>.scenario.json (ledger family, also written next to fault / crash traces): the scenario is concretised into a signed chain, the
  real daemon syncs it from the fake factomd, and TLC (Trace_Ledger) validates the recorded trace block by block; the issues are printed
  with the property each contradicts. Exit 1 if an issue of the artefact's own property is reproduced, 0 otherwise.
* convert-kernel-differs.json / bank-kernel-differs.json / config-differs.txt: the kernel resp. configuration conformance is run again.
* anything else (C18 schedules, C19 histories, C20 cases, crash points): the artefact is shown and the property's quick check is run again,
  which regenerates the same case from VERIF_SEED.
"""
import json, os, re, shutil, subprocess, sys
sys.path.insert(0, os.path.dirname(os.path.abspath(__file__)))
import vlib


def pid_of(path):
    m = re.search(r"/(C\d\d)/[^/]+$", os.path.abspath(path))
    return m.group(1) if m else None


def main():
    if len(sys.argv) != 2 or not os.path.exists(sys.argv[1]):
        sys.stderr.write(__doc__)
        return 2
    path = os.path.abspath(sys.argv[1])
    pid = pid_of(path)
    base = os.path.basename(path)
    if base.endswith(".scenario.json"):
        import ledger
        doc = json.load(open(path))
        work = vlib.scratch("replay-")
        try:
            name = base[:-len(".scenario.json")].replace(".", "_")
            res = ledger.run_all([(name, doc)], work)
            r = res[0]
            print("run: rc=%s kind=%s lines=%s %s" % (r.rc, getattr(r, "kind", ""), getattr(r, "lines", ""), (r.err or "")[-300:].strip()))
            ledger.validate(res, work, jvms=1)
            mine = 0
            for i in r.issues:
                i = list(i)
                tags = [str(x) for x in i[:3] if re.match(r"^(C\d\d|U|GEN|API)$", str(x))]
                tag = tags[0] if tags else "?"
                print("issue [%s] %s" % (tag, " ".join(str(x) for x in i)[:400]))
                mine += 1 if (pid is None or tag == pid) else 0
            if r.rc != 0 and pid in ("C08", "C02", "C10"):
                mine += 1
            print("%d issue(s), %d of them contradict %s" % (len(r.issues), mine, pid or "some property"))
            if mine:
                vlib.violation(pid or "?", path)
            return 1 if mine else 0
        finally:
            shutil.rmtree(work, ignore_errors=True)
    if base == "convert-kernel-differs.json":
        import convk
        n, _ = convk.check(pid or "C07", "quick", refusal_only=(pid == "C13"))
        return 1 if n else 0
    if base == "bank-kernel-differs.json":
        import bankk
        n, _ = bankk.check(pid or "C16")
        return 1 if n else 0
    if base == "config-differs.txt":
        import conf
        return 1 if conf.check(pid) else 0
    try:
        sys.stdout.write(open(path, errors="replace").read(4000) + "\n")
    except Exception as e:
        print("(artefact not printable: %s)" % e)
    if not pid:
        return 2
    print("re-running the quick check of %s (the case is regenerated from VERIF_SEED=%d)" % (pid, vlib.seed()))
    return subprocess.call([sys.executable, os.path.join(os.path.dirname(os.path.abspath(__file__)), pid.lower() + ".py"), "--tier", "quick"])


if __name__ == "__main__":
    try:
        sys.exit(main())
    except vlib.Infra as e:
        print("INFRA: %s" % e)
        sys.exit(2)

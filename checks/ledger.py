"""Run scenarios against the real pegnetd (vh run) and validate the traces with TLC
(Trace_Ledger.tla). Shared by the ledger-rule checks (C03 C04 C05 C06 C07 C11 .. C17).
"""
import concurrent.futures as cf
import json, os, re, shutil, subprocess, time

import vlib

VH_INFRA = 70


class RunResult:
    def __init__(self, name, doc):
        self.name = name
        self.doc = doc
        self.rc = None
        self.err = ""
        self.trace = None      # path
        self.lines = 0
        self.last = None       # last event (dict)
        self.issues = []       # (line, tag, text)
        self.dump = None

    @property
    def kind(self):
        if self.rc == 0:
            return "ok"
        return {3: "refused", 4: "wedge", 5: "dead", 1: "fatal", 2: "panic"}.get(self.rc, "infra")


def run_one(vh, doc, work, name, extra=(), timeout=300, dump=False, env=None):
    os.makedirs(work, exist_ok=True)
    sp = os.path.join(work, name + ".json")
    tp = os.path.join(work, name + ".ndjson")
    with open(sp, "w") as f:
        json.dump(doc, f)
    r = RunResult(name, doc)
    cmd = [vh, "run", "-scenario", sp, "-out", tp, "-work", os.path.join(work, name + ".w")] + list(extra)
    if dump:
        r.dump = os.path.join(work, name + ".dump")
        cmd += ["-dump", r.dump]
    try:
        p = subprocess.run(cmd, stdout=subprocess.PIPE, stderr=subprocess.PIPE, timeout=timeout,
                           env=dict(os.environ, LXRBITSIZE="8", **(env or {})))
        r.rc = p.returncode
        r.err = p.stderr.decode("utf8", "replace")[-3000:]
    except subprocess.TimeoutExpired:
        r.rc = VH_INFRA
        r.err = "timeout"
    r.trace = tp
    if os.path.exists(tp):
        with open(tp) as f:
            ls = f.readlines()
        r.lines = len(ls)
        if ls:
            try:
                r.last = json.loads(ls[-1])
            except ValueError:
                r.last = None
    shutil.rmtree(os.path.join(work, name + ".w"), ignore_errors=True)
    r.status = status_counts(tp)
    return r


def status_counts(path):
    """Final status of every transaction-chain batch of a trace: {executed, pending, -1, ...}."""
    last = {}
    if not os.path.exists(path):
        return {}
    with open(path) as f:
        for line in f:
            try:
                e = json.loads(line)
            except ValueError:
                continue
            if e.get("ev") != "Block":
                continue
            for b in e["obs"]["hist"]:
                if b["txs"] and b["txs"][0]["action"] in (1, 2):
                    last[b["hash"]] = b["exec"]
    out = {}
    for v in last.values():
        k = "executed" if v > 0 else ("pending" if v == 0 else str(v))
        out[k] = out.get(k, 0) + 1
    return out


def run_all(docs, work, extra=(), workers=None, dump=False, timeout=300):
    """docs: list of (name, doc). Returns list of RunResult in order."""
    vh = vlib.go_build("vh", "vh")
    workers = workers or vlib.NCPU
    with cf.ThreadPoolExecutor(max_workers=workers) as ex:
        futs = [ex.submit(run_one, vh, d, work, n, extra, timeout, dump) for (n, d) in docs]
        return [f.result() for f in futs]


def header_key(path):
    with open(path) as f:
        first = f.readline()
    try:
        h = json.loads(first)
    except ValueError:
        return None
    return json.dumps([h.get("sched"), h.get("assets"), h.get("addrs"), h.get("avgPeriod"), h.get("deviations")], sort_keys=True)


ISSUE_RE = re.compile(r'^"ISSUE (.*)"$')


def validate(results, work, module="Trace_Ledger", timeout=1200, max_lines=4000, jvms=4, deviations=None):
    """Validate the traces of the given RunResults with TLC. Fills r.issues.
    Returns dict(states=, traces=, wall=). Raises Infra on TLC trouble."""
    groups = {}
    for r in results:
        if not r.trace or not os.path.exists(r.trace) or r.lines == 0:
            continue
        k = header_key(r.trace)
        groups.setdefault(k, []).append(r)
    # split groups into files of bounded length
    files = []
    for k, rs in groups.items():
        cur, n = [], 0
        for r in rs:
            if cur and n + r.lines > max_lines:
                files.append(cur)
                cur, n = [], 0
            cur.append(r)
            n += r.lines
        if cur:
            files.append(cur)
    stats = {"states": 0, "traces": 0, "wall": 0.0, "files": len(files)}

    def one(i, rs):
        path = os.path.join(work, "group%d.ndjson" % i)
        owner = []      # line number (1-based) -> (result, local line)
        with open(path, "w") as out:
            for r in rs:
                with open(r.trace) as f:
                    for j, line in enumerate(f):
                        if deviations is not None and j == 0:
                            h = json.loads(line)
                            h["deviations"] = sorted(deviations)
                            line = json.dumps(h) + "\n"
                        out.write(line)
                        owner.append((r, j + 1))
        t0 = time.time()
        res = vlib.tlc(module, cfg=module + ".cfg", workers=1, files=[("trace.ndjson", path)], timeout=timeout,
                       deadlock=True)
        done = re.search(r'<<"DONE", (\d+), (\d+)>>', res.out)
        if res.rc != 0 or not done or int(done.group(1)) != len(owner):
            raise vlib.Infra("TLC trace validation failed on %s (rc=%s):\n%s" % (path, res.rc, res.out[-700:]))
        for m in re.finditer(r'^"ISSUE (.*)"\s*$', res.out, re.M):
            try:
                arr = json.loads(json.loads('"' + m.group(1) + '"'))
            except ValueError:
                raise vlib.Infra("cannot parse issue line: " + m.group(0)[:300])
            line, tag, text = arr[0], arr[1], arr[2]
            r, local = owner[line - 1]
            r.issues.append((local, tag, text))
        return res.distinct, len(rs), time.time() - t0

    with cf.ThreadPoolExecutor(max_workers=jvms) as ex:
        futs = [ex.submit(one, i, rs) for i, rs in enumerate(files)]
        for f in futs:
            s, n, w = f.result()
            stats["states"] += s
            stats["traces"] += n
            stats["wall"] += w
    return stats


def self_test(result, work, mutate, expect_tag=None):
    """Binding self-test: corrupt the trace of `result` with mutate(events) and require an issue."""
    with open(result.trace) as f:
        ev = [json.loads(l) for l in f]
    mutate(ev)
    p = os.path.join(work, "selftest.ndjson")
    with open(p, "w") as f:
        for e in ev:
            f.write(json.dumps(e) + "\n")
    r2 = RunResult("selftest", result.doc)
    r2.trace, r2.lines = p, len(ev)
    validate([r2], work)
    tags = {t for (_, t, _) in r2.issues}
    if not r2.issues or (expect_tag and expect_tag not in tags):
        raise vlib.Infra("binding self-test failed: corrupted trace was accepted (issues=%r)" % (r2.issues[:3],))
    return len(r2.issues)


def classify_known(pid, results, own_tags, work):
    """KNOWN-FINDING classification (DESIGN.md 3.5): returns a matcher(result, issue) -> finding or None.
    An own-tag issue is explained by an open finding iff the trace is accepted (for that issue) with the
    finding's deviation switched on AND the finding's concrete signature matches the failing step."""
    import findings as F
    fs = [f for f in vlib.open_findings(pid) if f.get("deviation")]
    explained = {}
    if not fs:
        return lambda r, i: None
    for r in results:
        own = [i for i in r.issues if i[1] in own_tags]
        if not own:
            continue
        for f in fs:
            r2 = RunResult(r.name, r.doc)
            r2.trace, r2.lines = r.trace, r.lines
            validate([r2], work, deviations=[f["deviation"]])
            left = {(i[0], i[1], i[2]) for i in r2.issues}
            sig = F.SIGS.get(f["id"])
            for i in own:
                if (i[0], i[1], i[2]) in left:
                    continue
                ev = F.block_event(r, i[0])
                if sig and sig(r, i, ev):
                    explained[(r.name, i[0], i[1], i[2])] = f
    return lambda r, i: explained.get((r.name, i[0], i[1], i[2]))


def finish(pid, results, stats, own_tags, t0, mc=None, level="model_checking", rule="", samples=None,
           assumptions=(), extra_cov=None, findings_matcher=None, crash_owner=False):
    """Common verdict + evidence for a ledger-family check.

    own_tags: issue tags that count as violations of this property.
    crash_owner: whether wedge/panic/fatal runs are violations of this property (C08) or only 'not observable'.
    findings_matcher(result, issue) -> finding dict or None (for KNOWN-FINDING classification).
    """
    viol = []
    known = {}
    other = {}
    notobs = 0
    infra = []
    for r in results:
        if r.kind == "infra":
            infra.append((r.name, r.err[-500:]))
            continue
        if r.kind in ("wedge", "dead", "fatal", "panic", "refused"):
            if crash_owner:
                iss = (r.lines, pid, "%s: %s" % (r.kind, (r.last or {}).get("reason", r.err[-300:])))
                f = findings_matcher(r, iss) if findings_matcher else None
                if f:
                    known.setdefault(f["id"], f)
                else:
                    viol.append((r, iss))
            else:
                notobs += 1
        for iss in r.issues:
            tag = iss[1]
            if tag == "GEN":
                infra.append((r.name, "generator/oracle inconsistency: %s" % (iss,)))
            elif tag in own_tags:
                f = findings_matcher(r, iss) if findings_matcher else None
                if f:
                    known.setdefault(f["id"], f)
                else:
                    viol.append((r, iss))
            else:
                other[tag] = other.get(tag, 0) + 1
    if infra:
        raise vlib.Infra("; ".join("%s: %s" % x for x in infra[:3]))
    first_path = None
    for (r, iss) in viol[:10]:
        d = vlib.replay_dir(pid)
        base = os.path.join(d, "%s-seed%d" % (r.name, vlib.seed()))
        with open(base + ".scenario.json", "w") as f:
            json.dump(r.doc, f)
        if r.trace and os.path.exists(r.trace):
            shutil.copyfile(r.trace, base + ".trace.ndjson")
        with open(base + ".issues.json", "w") as f:
            json.dump([list(i) for i in r.issues] + [["run", r.kind, r.err[-1000:]]], f, indent=1)
        vlib.violation(pid, base + ".scenario.json")
        first_path = first_path or base
    for f in known.values():
        vlib.known(pid, f.get("what", f["id"]))
    cov = {
        "states": (mc or {}).get("states", 0) or stats.get("states", 0),
        "transitions": (mc or {}).get("transitions", 0) or stats.get("states", 0),
        "traces_validated_against_impl": stats.get("traces", 0),
        "trace_states": stats.get("states", 0),
        "evaluations": len(results),
        "rule": rule,
        "samples": samples or [],
        "issues_for_other_properties": other,
        "not_observable_runs": notobs,
        "batch_status_counts": sum_counts([getattr(r, "status", {}) for r in results]),
        "distinct_nontrivial": len({json.dumps(getattr(r, "status", {}), sort_keys=True) + r.name for r in results
                                    if len(getattr(r, "status", {})) >= 2}),
        "known_findings_hit": sorted(known),
    }
    if mc:
        cov["mc"] = mc
    if extra_cov:
        cov.update(extra_cov)
    vlib.write_evidence(pid, level, cov, time.time() - t0, violations=len(viol), assumptions=assumptions)
    return 1 if viol else 0


def sum_counts(ds):
    out = {}
    for d in ds:
        for k, v in d.items():
            out[k] = out.get(k, 0) + v
    return out


def sample_of(r, n=2):
    """A short, readable description of a run for the evidence file."""
    blocks = [b for b in r.doc.get("blocks", []) if b.get("entries")][:n]
    return {"scenario": r.name, "tip": r.doc.get("tip"), "result": r.kind, "trace_lines": r.lines,
            "blocks_with_entries": blocks}

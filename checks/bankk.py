"""PEG bank kernel conformance (C16): the real ConversionSupplySet.Payouts / Refund on all small request vectors vs.
LedgerBlock.PegYields / Refund (decided by TLC, Trace_BankK); one run per process."""
import json, os, re, shutil, sys
import vlib

_cache = {}


def run():
    if "r" in _cache:
        return _cache["r"]
    work = vlib.scratch("bankk-")
    try:
        vh = vlib.go_build("vh", "vh")
        out = os.path.join(work, "bankk.ndjson")
        rc, o = vlib.run([vh, "bankk", "-out", out], timeout=300)
        if rc != 0:
            raise vlib.Infra("vh bankk failed: %s" % o[-400:])
        n = len(open(out).read().splitlines())
        # binding self-test with fixed lines, independent of the code under test: bank 5 shared by requests 6, 3, 1 is 3 + 1 + 0 and the
        # dust of 1 goes to the largest request (4, 1, 0); refund of 7 pUSD at rates 2 / 3 with 2 PEG allotted: (4 - 2) * 3 / 2 = 3
        tst = [json.dumps({"k": "bank", "bank": 5, "w": [6, 3, 1], "p": [3, 2, 0]}), json.dumps({"k": "refund", "amt": 7, "y": 2, "ir": 2, "pr": 3, "v": 4}),
               json.dumps({"k": "bank", "bank": 5, "w": [6, 3, 1], "p": [4, 1, 0]}), json.dumps({"k": "refund", "amt": 7, "y": 2, "ir": 2, "pr": 3, "v": 3})]
        rs = vlib.tlc("Trace_BankK", cfg="Trace_BankK.cfg", workers=1, files=[("trace.ndjson", "\n".join(tst) + "\n")], timeout=300, deadlock=False)
        if not re.search(r'<<"DONE", 4, 2>>', rs.out):
            raise vlib.Infra("Trace_BankK self-test (two wrong lines, two right ones): %s" % rs.out[-800:])
        r = vlib.tlc("Trace_BankK", cfg="Trace_BankK.cfg", workers=1, files=[("trace.ndjson", out)], timeout=900, deadlock=False)
        m = re.search(r'<<"DONE", (\d+), (\d+)>>', r.out)
        if r.rc != 0 or not m or int(m.group(1)) != n:
            raise vlib.Infra("Trace_BankK failed: %s" % r.out[-800:])
        cov = {"kernel_calls_compared": n, "mismatches": int(m.group(2)),
               "issues": [json.loads(json.loads('"' + x + '"')) for x in re.findall(r'^"ISSUE (.*)"\s*$', r.out, re.M)],
               "self_test": "of four fixed lines exactly the two wrong ones (misplaced dust, refund off by one) are reported"}
        _cache["r"] = cov
        return cov
    finally:
        shutil.rmtree(work, ignore_errors=True)


def check(pid):
    """Prints a VIOLATION line when the real bank kernel differs from the specification; returns (mismatches, coverage)."""
    cov = run()
    if cov["mismatches"]:
        p = vlib.save_replay(pid, "bank-kernel-differs.json", json.dumps(cov["issues"], indent=1) + "\n")
        for i in cov["issues"][:3]:
            sys.stdout.write("  bank kernel call %s is not what PegYields / Refund prescribe\n" % json.dumps(i))
        vlib.violation(pid, p)
    return cov["mismatches"], cov


if __name__ == "__main__":
    n, c = check("C16")
    print(json.dumps(c, indent=1)[:1500])
    sys.exit(1 if n else 0)

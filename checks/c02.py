#!/usr/bin/env python3
"""C02 Per-block atomicity and crash consistency (fault enumeration: SIGKILL at statement boundaries)."""
import json, os, random, shutil, subprocess, sys, time
sys.path.insert(0, os.path.dirname(os.path.abspath(__file__)))
import vlib, ledger, scen

PID = "C02"


def mc_sync(tier):
    cfgs = ["MC_Sync.cfg"] if tier == "quick" else ["MC_Sync.cfg", "MC_Sync_thorough.cfg"]
    tot = {"states": 0, "transitions": 0, "configs": []}
    for cfg in cfgs:
        r = vlib.tlc("MC_Sync", cfg=cfg, workers=8, timeout=900)
        if not r.ok:
            raise vlib.Infra("exhaustive model %s failed: %s\n%s" % (cfg, r.violation or r.error, r.out[-1500:]))
        tot["states"] += r.distinct
        tot["transitions"] += r.generated
        tot["configs"].append({"cfg": cfg, "distinct": r.distinct, "generated": r.generated, "depth": r.depth})
    # vacuity guard: every deviation must be caught by the invariants of the same model
    for dev, inv in (("DevWriteOutsideTx", "DiskIsPrefix"), ("DevSyncedOutsideTx", "DiskIsPrefix"), ("DevMemNotRestored", "MemNotBehind")):
        r = vlib.tlc("MC_Sync", cfg="MC_Sync_%s.cfg" % dev, workers=4, timeout=300)
        if r.violation != inv:
            raise vlib.Infra("vacuity guard: deviation %s is not caught by %s (got %r)" % (dev, inv, r.violation))
    tot["deviation_counterexamples"] = 3
    return tot


def crash_run(vh, doc, work, name, blocks, stride, offset, wal=False, span=0, mode="crash", edges=False):
    sp = os.path.join(work, name + ".json")
    with open(sp, "w") as f:
        json.dump(doc, f)
    out = os.path.join(work, name + ".ndjson")
    cmd = [vh, "crash", "-scenario", sp, "-out", out, "-work", os.path.join(work, name + ".w"), "-mode", mode,
           "-blocks", ",".join(map(str, blocks)), "-stride", str(stride), "-offset", str(offset), "-par", str(vlib.NCPU)]
    if wal:
        cmd.append("-wal")
    if span:
        cmd += ["-span", str(span)]
    if edges:
        cmd.append("-edges")
    rc, o = vlib.run(cmd, timeout=3000, env={"LXRBITSIZE": "8"})
    shutil.rmtree(os.path.join(work, name + ".w"), ignore_errors=True)
    if rc != 0:
        raise vlib.Infra("vh crash failed rc=%d: %s" % (rc, o[-2000:]))
    for line in open(out):
        e = json.loads(line)
        if e["ev"] == "RefPartial":
            raise RefPartial(e, out, doc)
        if e["ev"] == "RefStalled":
            STALLED.append((name, e["h"], e["why"]))
    return out


STALLED = []      # fault-free runs that could not apply some block: only the blocks below it were evaluated


class RefPartial(Exception):
    """The fault-free run stalled at a block whose effects are partly in the database (a write outside the block's transaction)."""
    def __init__(self, ev, path, doc):
        Exception.__init__(self, "uninterrupted run stalled at block %s with tables %s already changed (recorded height %s)" % (ev["h"], ev["diffTables"], ev["synced"]))
        self.ev, self.path, self.doc = ev, path, doc


def validate(path, deviations=()):
    cfg = "Trace_Sync.cfg"
    files = [("trace.ndjson", path)]
    if deviations:
        cfg = "Trace_Sync_dev.cfg"
        files.append((cfg, "SPECIFICATION Spec\nCONSTANT TDeviations = {%s}\nINVARIANTS DiskIsPrefix OnceInOrder MemNotBehind Done\nCHECK_DEADLOCK FALSE\n"
                      % ",".join('"%s"' % d for d in deviations)))
    r = vlib.tlc("Trace_Sync", cfg=cfg, workers=1, files=files, timeout=1200)
    import re
    done = re.search(r'<<"DONE", (\d+), (\d+)>>', r.out)
    n = sum(1 for _ in open(path))
    if r.violation and r.violation != "Done":
        return r, [(0, PID, "invariant %s of Sync.tla violated while replaying the experiments" % r.violation)]
    if r.rc != 0 or not done or int(done.group(1)) != n:
        raise vlib.Infra("Trace_Sync failed (rc=%s): %s" % (r.rc, r.out[-2000:]))
    issues = []
    for m in re.finditer(r'^"ISSUE (.*)"\s*$', r.out, re.M):
        a = json.loads(json.loads('"' + m.group(1) + '"'))
        issues.append((a[0], a[1], "%s (h=%s k=%s)" % (a[2], a[3], a[4])))
    return r, issues


def main():
    try:
        return main2()
    except RefPartial as e:
        # DiskIsPrefix without any fault: the database holds effects of block h while its recorded height is h-1
        keep = os.path.join(vlib.replay_dir(PID), "ref-partial-seed%d.ndjson" % vlib.seed())
        shutil.copyfile(e.path, keep) if os.path.exists(e.path) else None
        json.dump(e.doc, open(keep + ".scenario.json", "w"))
        sys.stdout.write("  %s\n" % e)
        vlib.violation(PID, keep)
        vlib.write_evidence(PID, "fault_enumeration", {"evaluations": 1, "distinct_nontrivial": 1,
            "rule": "the uninterrupted reference run itself left part of a block in the database (DiskIsPrefix of Sync.tla violated without any fault)",
            "samples": [e.ev]}, 0, violations=1, assumptions=[])
        return 1


def main2():
    t0 = time.time()
    tier, seed = vlib.tier(), vlib.seed()
    work = vlib.scratch("c02-")
    try:
        mc = mc_sync(tier)
        vh = vlib.go_build("vh", "vh")
        rnd = random.Random(seed)
        runs = []
        if tier == "quick":
            s = scen.rich_chain(seed, long=False)
            doc = s.doc()
            rich = [h for h in sorted(s.blocks) if s.blocks[h].get("entries")]
            full = [rnd.choice(rich)]
            runs.append(("q", doc, full, 23, rnd.randrange(23), False, 4))
        else:
            s = scen.rich_chain(seed, long=True)
            doc = s.doc()
            allb = sorted(s.blocks)
            runs.append(("t-journal", doc, allb, 0, 0, False, 0))
            # (a WAL-journal run was planned; the harness' own read connections get "database is locked" from a database the
            #  in-process daemon holds open in WAL mode, so that mode is not exercised - DESIGN.md section 6)
            s2 = scen.rich_chain(seed + 1, long=False)
            runs.append(("t-journal2", s2.doc(), sorted(s2.blocks), 0, 0, False, 0))
        # a chain priced with rolling averages, with unrated blocks: what the killed process held in memory (the averages window) is gone
        # after the restart, the resumed run must still end with the uninterrupted run's ledger (kills at every 53rd statement (thorough: 5th), resumed to the tip)
        import c07
        adoc = c07.chain("c02-avg", seed * 13 + 4, 11, 9, 4, "wide").doc()
        runs.append(("avg", adoc, [], 53 if tier == "quick" else 5, rnd.randrange(53), False, 0))
        issues, nexp, states, samples, infra = [], 0, 0, [], 0
        writes_out = []
        # "or a block fails at any instant": BEGIN, the first statements, the version row / metadata statements and COMMIT
        # of every block fail once (the full statement enumeration belongs to C10)
        fdoc = runs[0][1]
        fdoc_blocks = s.blocks
        fpath = crash_run(vh, fdoc, work, "fail-edges", [], 0, 0, span=(4 if tier == "quick" else 0), mode="stmtfault", edges=True)
        fevs = [json.loads(l) for l in open(fpath)]
        infra += sum(1 for e in fevs if e["ev"] == "Infra")
        fexp = [e for e in fevs if e["ev"] == "FaultExp"]
        nexp += len(fexp)
        fr, fiss = validate(fpath)
        states += fr.distinct
        # ... and, thinner, statements in the middle of the blocks (every 7th of every block; the full enumeration belongs to C10):
        # a block in which a statement failed is either rolled back as a whole or applied as a whole
        mpath = crash_run(vh, fdoc, work, "fail-mid", [], 7 if tier == "quick" else 3, rnd.randrange(7), span=(3 if tier == "quick" else 0), mode="stmtfault")
        mevs = [json.loads(l) for l in open(mpath)]
        infra += sum(1 for e in mevs if e["ev"] == "Infra")
        mexp = [e for e in mevs if e["ev"] == "FaultExp"]
        nexp += len(mexp)
        mr, _ = validate(mpath)
        states += mr.distinct
        for e in mexp:
            e["_mid"] = True
        fexp = fexp + mexp
        open_f = vlib.open_findings(PID)
        known = {}
        for e in fexp:
            if not (e.get("resumed") and e.get("equal") and e.get("syncverOKAtTip") and e.get("contOK", True)):
                f = next((f for f in open_f if f.get("signature", {}).get("site") and f["signature"]["site"] in e.get("site", "")), None)
                if f:
                    known[f["id"]] = f
                    continue
                issues.append(("fail-mid" if e.get("_mid") else "fail-edges", 0, PID, "after a failed statement (event %s of block %s, %s) heights are not applied once each in order / ledger differs: %s"
                               % (e["k"], e["h"], e.get("site"), e.get("diffTables")), mpath if e.get("_mid") else fpath))
        # ... and a block also fails when an upstream request of it fails: every request of one seeded block and every 4th of the others
        # (quick), every request of every block (thorough); the database must then hold whole blocks only and the resumed daemon must
        # reach the ledger of the uninterrupted run (the full request x statement enumeration belongs to C10)
        richb = [h for h in sorted(fdoc_blocks) if fdoc_blocks[h].get("entries")]
        rpath = crash_run(vh, fdoc, work, "fail-req", [rnd.choice(richb)] if tier == "quick" else sorted(fdoc_blocks),
                          4 if tier == "quick" else 0, rnd.randrange(4), span=(3 if tier == "quick" else 0), mode="reqfault")
        revs = [json.loads(l) for l in open(rpath)]
        infra += sum(1 for e in revs if e["ev"] == "Infra")
        rexp = [e for e in revs if e["ev"] == "FaultExp"]
        nexp += len(rexp)
        rr, riss = validate(rpath)
        states += rr.distinct
        rbad = {i[0] for i in riss}
        rissues = []
        for ln, e in enumerate(revs, 1):
            if e["ev"] != "FaultExp":
                continue
            if ln in rbad or not (e.get("resumed") and e.get("equal") and e.get("contOK", True)):
                site = e.get("site", "")
                if e["h"] in (fdoc["sched"].get("DevRewards"), fdoc["sched"].get("V202")) and e["k"] == 1:
                    site = "factomd-request <- node.(*Pegnetd).NullifyBurnAddress"      # its own dblock fetch (2nd request of the block)
                f = next((f for f in open_f if f.get("signature", {}).get("site") and f["signature"]["site"] in site), None)
                if f:
                    known[f["id"]] = f
                    continue
                rissues.append(("fail-req", 0, PID, "after a failed upstream request (request %s of block %s, %s) the database holds part of a block / "
                                "the resumed ledger differs: %s" % (e["k"], e["h"], site, e.get("diffTables")), rpath))
        if rissues:
            keep = os.path.join(vlib.replay_dir(PID), "fail-req-seed%d.ndjson" % seed)
            shutil.copyfile(rpath, keep)
            json.dump(fdoc, open(keep + ".scenario.json", "w"))
            issues += rissues
        if [i for i in issues if i[0] == "fail-mid"]:
            keep = os.path.join(vlib.replay_dir(PID), "fail-mid-seed%d.ndjson" % seed)
            shutil.copyfile(mpath, keep)
            json.dump(fdoc, open(keep + ".scenario.json", "w"))
        if [i for i in issues if i[0] == "fail-edges"]:
            keep = os.path.join(vlib.replay_dir(PID), "fail-edges-seed%d.ndjson" % seed)
            shutil.copyfile(fpath, keep)
            json.dump(fdoc, open(keep + ".scenario.json", "w"))
        for (name, doc, full, stride, off, wal, span) in runs:
            path = crash_run(vh, doc, work, name, full, stride, off, wal=wal, span=span)
            evs = [json.loads(l) for l in open(path)]
            infra += sum(1 for e in evs if e["ev"] == "Infra")
            nexp += sum(1 for e in evs if e["ev"] == "CrashExp")
            for e in evs:
                if e["ev"] == "BlockEvents" and e["writesOut"]:
                    writes_out.append((e["h"], e["writesOut"][:3]))
            r, iss = validate(path)
            states += r.distinct
            for (line, tag, text) in iss:
                issues.append((name, line, tag, text, path))
            samples += [e for e in evs if e["ev"] == "CrashExp"][:2]
            keep = os.path.join(vlib.replay_dir(PID), "%s-seed%d.ndjson" % (name, seed))
            if iss or writes_out:
                shutil.copyfile(path, keep)
                json.dump(doc, open(keep + ".scenario.json", "w"))
        if infra:
            raise vlib.Infra("%d experiments could not be evaluated" % infra)
        # binding self-test: a corrupted observation must be rejected
        evs = [json.loads(l) for l in open(path)]
        for e in evs:
            if e["ev"] == "CrashExp" and not e["after"]:
                e["synced"] += 1
                break
        st = os.path.join(work, "selftest.ndjson")
        open(st, "w").write("\n".join(json.dumps(e) for e in evs) + "\n")
        _, iss2 = validate(st)
        if not iss2:
            raise vlib.Infra("binding self-test failed: corrupted crash observation accepted")
        viol = 0
        shown = set()
        for (name, line, tag, text, p) in issues[:10]:
            if name in shown:
                continue
            shown.add(name)
            sys.stdout.write("  %s\n" % text[:300])
            vlib.violation(PID, os.path.join(vlib.replay_dir(PID), "%s-seed%d.ndjson" % (name, seed)))
            viol += 1
        for (h, w) in writes_out[:5]:
            # a write that bypasses the block's transaction is exactly the DevWriteOutsideTx deviation of Sync.tla
            vlib.violation(PID, os.path.join(vlib.replay_dir(PID), "%s-seed%d.ndjson" % (runs[0][0], seed)))
            viol += 1
        for f in known.values():
            vlib.known(PID, f["what"])
        vlib.write_evidence(PID, "fault_enumeration", {
            "evaluations": nexp,
            "distinct_nontrivial": nexp,
            "rule": "one experiment per (block, SQL event index k): the real daemon applies the block from the reference database of "
                    "height h-1 and is SIGKILLed before event k (k = 0: before BEGIN .. K-1: before COMMIT; plus right after COMMIT); a fresh "
                    "process reads synced height + canonical dump, then resumes; every experiment is replayed through Sync.tla by TLC. "
                    "quick: every k of one seeded block + every 23rd k of all others; thorough: every k of every non-empty block of two chains (rollback journal). "
                    "In addition the statements at the edges of every block's transaction and the upstream requests of the blocks fail once each (block "
                    "failure instead of process death), with the same oracle. "
                    "All experiments are distinct (h,k) pairs and non-trivial (a real process is killed).",
            "samples": samples[:3],
            "exhaustive": tier == "thorough",
            "states": mc["states"] + states, "transitions": mc["transitions"] + states,
            "traces_validated_against_impl": nexp,
            "mc": mc, "writes_outside_block_transaction": writes_out[:5],
        }, time.time() - t0, violations=viol,
            assumptions=["process kill only (no power loss / torn pages): SQLite's atomic commit is trusted",
                         "reference = uninterrupted run of the same chain"])
        if STALLED and not viol:
            raise vlib.Infra("the fault-free run stalled (%s); the blocks below were evaluated without finding a violation: no verdict" % (STALLED[:2],))
        return 1 if viol else 0
    finally:
        shutil.rmtree(work, ignore_errors=True)


if __name__ == "__main__":
    vlib.main(main)

#!/usr/bin/env python3
"""Regenerates /verif/MANIFEST.json from the table below (keeps it valid at all times)."""
import json, os
V = os.path.dirname(os.path.dirname(os.path.abspath(__file__)))

LEDGER_NOTE = ("Trusted base: TLC, Big.tla limb arithmetic (self-tested against Python bignums), the projection from SQLite rows "
               "to abstract state, the fake factomd (same serialisation library as the client), the pegnet OPR grader module "
               "as grading oracle, the Go toolchain. Exhaustive only within the stated small constants; real-code coverage is "
               "the set of generated scenarios (seeded).")

CHECKS = {
 "C03": dict(cat="model_checking", ref="4 C03",
    text="TLC exhausts the two-pass funds check / all-or-nothing batch application of Ledger.tla on small constants; seeded batches "
         "(amounts at and around the balance, multi-transaction, mixed transfer/conversion) are executed by the real node and every "
         "block is validated by TLC (Trace_Ledger) as a one-step obligation at exact 64-bit scale.",
    technique="TLA+ spec (Ledger/LedgerBlock) + TLC exhaustive + TLC trace validation of real runs"),
}

CHECKS["C02"] = dict(cat="fault_enumeration", ref="4 C02", engine="fault-enumeration+tlc",
    text="Every SQL statement boundary of the enumerated blocks (before BEGIN, before each statement, before COMMIT, right after COMMIT) is a "
         "crash point: the real daemon is SIGKILLed there, a fresh process reads the database, the run is resumed; each experiment is replayed "
         "by TLC through Sync.tla (DiskIsPrefix, OnceInOrder, MemNotBehind evaluated in every state). Sync.tla itself is model-checked "
         "exhaustively with crashes and faults at every pc, including liveness, and its deviation switches are shown to be caught. Block failure "
         "instead of process death is covered too: the statements at the edges of every block's transaction (BEGIN .. COMMIT) and the upstream requests of "
         "the blocks fail once each; the faulted process then goes on for two more blocks, and the database it leaves must hold whole blocks only, one "
         "version row per height, before the resumed run is compared with the uninterrupted one.",
    note="Process kill only: SQLite's atomic commit and the file system are trusted (no power loss / torn pages). Reference = uninterrupted "
         "run of the same chain by the same build. Trusted: TLC, sqlwrap driver wrapper (checked not to perturb results), fake factomd.",
    technique="TLA+ spec of the sync loop (Sync.tla) + TLC exhaustive + crash-point enumeration replayed through the spec")

CHECKS["C04"] = dict(cat="model_checking", ref="4 C04",
    text="MC_Ledger (TLC, exhaustive over chains of a block menu) proves SupplyOK: per-asset supply delta of every block equals rewards + conversions in/out "
         "- burn outputs - scheduled zeroing, exactly. Real runs of random live-era traffic and of the structurally rich chain are validated block by block "
         "by TLC: the full balance table must equal the exact effects of the block's enumerated events (Big arithmetic), nothing may appear outside the "
         "scenario universe.",
    technique="TLA+ spec (Ledger/LedgerBlock) + TLC exhaustive + TLC trace validation of real runs")
CHECKS["C05"] = dict(cat="model_checking", ref="4 C05",
    text="MC_Ledger proves NoUnauthorized on the design; on the real node every mutation class of a signed entry (signature/key/chain/salt/content/"
         "key-type-before-activation), seeded (quick) or exhaustive (thorough) single-bit flips of content and external ids, and altered third-party copies "
         "of executed entries are placed on a real chain; TLC requires each non-authorised entry to leave no trace at all.",
    technique="TLA+ spec (Authorized/ArrivalStrict) + TLC exhaustive + TLC trace validation of mutated real entries")
CHECKS["C09"] = dict(cat="model_checking", ref="4 C09",
    text="MC_Restart (TLC) exhausts every rated/unrated pattern x restart set for the averages cache and proves the used window is AvgWindow (a function "
         "of recorded rates); the reload-by-height deviation yields the counterexample. Real chains with gaps inside the window are run continuously and "
         "with restarts after every block / at single heights / pairs; final dumps must agree and TLC validates every trace against the design window.",
    technique="TLA+ spec of the cache (Ledger.CacheStep/AvgWindow, MC_Restart) + TLC exhaustive + replica comparison + trace validation")


def _l(pid, ref, text, technique="TLA+ spec (Ledger/LedgerBlock) + TLC exhaustive (MC_Ledger) + TLC trace validation of real runs"):
    CHECKS[pid] = dict(cat="model_checking", ref=ref, text=text, technique=technique)

_l("C06", "4 C06", "MC_Ledger proves AtMostOnce / PendingIffHeld over all chains of the block menu with repeated entries; real chains with 100+ duplicate "
   "placements (same block, next, across unrated blocks, after execution / rejection, while pending) are validated by TLC block by block (relation, holding and "
   "execution at most once per entry hash, holding window [last rated, h)) and compared with the same chain without duplicates (DupInert).")
_l("C07", "4 C07", "MC_Ledger proves ConvTiming (executed at the first later rated block, never pending past it) and ValueOK; real conversions over 7 pairs, "
   "amounts 1..1e11, rates 1..9e15, PIP-10 off/on/switching, gaps in the averaging window are validated exactly (Big.tla): execution height, to_amount, balances. "
   "Kernel: MC_Convert proves floor exactness, value non-increase, never more than at spot rates, no round-trip gain, monotonicity and the refusal rule of "
   "Ledger.Convert over all small arguments; the real conversions.Convert is called on 31 104 argument tuples around the built-in PIP-10 activation and every "
   "result is compared with Ledger.Convert by TLC (Trace_Convert), and on 6 250 tuples of 64-bit arguments incl. the overflow branch (Trace_ConvertBig, Big.tla).")
_l("C08", "4 C08", "Sync.tla (TLC, with fairness) proves <>(synced = Tip) and no deadlock given total block application; hostile content (malformed / oversized / "
   "partial entries on all three chains, repeated entry hashes in every state) is served to the real daemon, which must commit every block (wedge and crash "
   "detectors); surviving traces are validated by TLC (garbage is inert).", technique="TLA+ spec (Sync.tla liveness, LedgerBlock totality) + TLC + adversarial scenario replay with wedge/crash detection")
_l("C11", "4 C11", "The pegnet grader module is the oracle for OPR winners, Ledger.tla (SprEligible/SprWinnerIdx) decides staking winners from committed balances; "
   "OPR/SPR sets of every class for graders V1..V5 / S1..S3 and valid / invalid FCT burn shapes are run on the real node; TLC checks reward and burn deltas, "
   "pn_winners rows, and that nothing else is credited (payout addresses of ALL staking records are attributed); every 3rd (thorough: every) upstream request of one chain "
   "fails once and winners / rewards must equal the fault-free run's. Configuration conformance (Config.tla) covers the default activation heights and issuance constants.")
_l("C12", "4 C12", "RatesOf (Ledger.tla) states the combination rule per era (1%/0.1%, 10%, 25% bands; PEG zero / equation / floating); every winner combination and "
   "band position is run on the real node and pn_rate compared; unrated blocks must execute no pending conversion (also ConvTiming in MC_Ledger); a per-height "
   "digest of all earlier rates is checked after every block (immutability); every 3rd (thorough: every) upstream request of one chain fails once and the rate / grade / "
   "winner tables must equal the fault-free run's.")
_l("C13", "4 C13", "MC_Ledger proves AdmissionOK; conversions between all ordered pairs of asset classes at every height around each activation (live and all-era "
   "schedules), funded and unfunded, with zero rates, unavailable averages (also with the API's rich-list methods called between blocks), every small-cap ticker and "
   "batches mixing a PEG destination with other transactions, are decided by TLC from the observed pre-state at the execution height. Kernel: the refusal rule "
   "of Ledger.Convert (MC_Convert.RefusedIff) is compared by TLC with the real conversions.Convert on 31 104 argument tuples around the built-in PIP-10 activation.")

_l("C14", "4 C14", "StakeOf / StakePayouts (Ledger.tla) state the rule: stake from MIN(previous, current snapshot) of non-PEG assets in USD, floor shares of "
   "4,500 PEG x 144, dust to a top staker, full stake when below the cap; chains crossing 144 / 288 (/432) with movements between snapshots, late funds, new "
   "addresses, ties, totals below / above the cap, a zero-rate asset, a snapshot height without rates, before and after 2.0.2 are run on the real node; TLC "
   "compares every PEG delta and both snapshot tables; one chain holds all 61 non-PEG tickers at distinct rates on a database whose balance table is migrated at start-up.")
_l("C15", "4 C15", "NullifyBurn / MintStage / DevStage (Ledger.tla) state each scheduled event; a sweep of six activation placements relative to the 144-block "
   "cadence with funded special addresses is run on the real node; TLC compares the balance of every special address after every block, so a payout or "
   "adjustment at a wrong height, for a wrong amount, repeated or missing is an issue; the scenario holds the key of the network's mint address; every statement of the mint and "
   "mint-burn block fails once; Config.tla covers the default heights, the developer table and the 2.0.4 supply table.")
_l("C16", "4 C16", "PegStage (LedgerBlock.tla): requested amounts, floor shares of the bank, dust to the highest request (lowest txid among ties), refunds at spot "
   "rates, per-height sets before V4 and one pooled set with a bank row after; legacy-era chains with totals below / above the bank, ties and requests spread "
   "over unrated blocks are run on the real node; TLC compares PEG / source deltas, recorded yield + refund and the bank row. Kernel: the real "
   "ConversionSupplySet.Payouts (4 banks x all request vectors 0..6^3) and Refund (1 600 argument tuples) are compared call by call with PegYields / Refund by TLC (Trace_BankK).")

_l("C17", "4 C17", "MC_Ledger proves ExecutedIffRel / PendingIffHeld; on real runs TLC checks after every block that statuses tell the truth (executed iff applied with "
   "the credited amounts, negative iff rejected without effect, pending only while it can still be considered) and that replaying the block's history rows plus "
   "the scheduled adjustments reproduces all balances; the real API handlers are queried over HTTP through all pages by entry hash, address and height: every "
   "recorded action exactly once with the recorded amounts and outputs, counts / offsets consistent, status and balances equal to the ledger.",
   technique="TLA+ spec (LedgerBlock + history replay + query model in Trace_Ledger) + TLC trace validation incl. real API answers")
CHECKS["C20"] = dict(cat="model_checking", ref="4 C20", engine="tlc-case-enumeration",
    text="Codec.tla transcribes the decimal-amount parser and the canonical FAT-2 batch grammar as pure operators; TLC enumerates the case menus (all strings over "
         "{0,9,.} up to a bound, boundary values around 2^63/2^64 and 8 fraction digits, key sets with missing / duplicate / unknown / re-cased keys, ticker, "
         "amount and address classes), exports every case, the real parsers are run on the rendered bytes and TLC re-decides every observation (Trace_Codec).",
    note="Pure-function enumeration: arbitrary byte strings outside the grammar-shaped menus are not generated (that would be fuzzing). Trusted: TLC, the rendering of "
         "abstract cases to bytes in harness/cmd/c20.",
    technique="TLA+ transcription of the parsers (Codec.tla) + TLC case enumeration + replay into the real parsers + TLC validation of the observations")

CHECKS["C10"] = dict(cat="fault_enumeration", ref="4 C10", engine="fault-enumeration+tlc",
    text="Every SQL statement (reads and writes, on every connection) and every upstream request of the enumerated blocks is failed once with an injected "
         "transient error; the real daemon must retry and reach exactly the fault-free ledger; each experiment is replayed by TLC through Sync.tla "
         "(FailInBlock / FailInsertSynced / FailCommit; invariants in every state); failing experiments are classified by the call site of the failed operation.",
    note="Faults are transient (once) and injected at the database/sql driver boundary and at the fake factomd; a daemon that exits is restarted once. Trusted: "
         "TLC, sqlwrap, fake factomd, reference = fault-free run of the same build.",
    technique="TLA+ spec of the sync loop with fault actions (Sync.tla) + TLC exhaustive + single-fault enumeration replayed through the spec")
CHECKS["C01"] = dict(cat="model_checking", ref="4 C01",
    text="MC_Determinism (TLC) exhausts all stake vectors with independent tie orders on two replicas (Agree holds with the address tie-break, counterexample "
         "without); chains biased to exact ties (capped staking payout with equal largest stakes, tied PEG requests) and general chains are replayed by K "
         "independent daemon processes (fresh hash seeds, different GOMAXPROCS, every second one stopped and restarted at every third height so that the "
         "process that computed a block differs) and all ledger tables compared; one replica per chain is validated by TLC.",
    technique="TLA+ two-replica model (MC_Determinism) + TLC exhaustive + K-replica replay of real chains with dump comparison")

CHECKS["C18"] = dict(cat="model_checking", ref="4 C18", engine="tlc+gate-scheduler+race-detector",
    text="Api.tla (TLC) interleaves the sync loop with two readers at the critical sections of the averages cache and of the height publication and proves "
         "LedgerUnaffected, RespCommitted, NoTornCache, InOrder, including a COMMIT that fails and a reader whose read fails inside the cache function (the "
         "unlocked / publish-early / publish-on-failure variants yield counterexamples); five schedules taken from those counterexamples (reader between "
         "bump and COMMIT, reader suspended inside the cache function, reader right after a failed COMMIT, reader whose client hangs up resp. whose read "
         "of pn_rate fails inside the cache function) are replayed deterministically on the real daemon with gate hooks, all read methods are hammered concurrently during a full sync "
         "under the race detector, final ledgers are compared with a reader-free run and the observations validated by TLC (Trace_Api).",
    note="Gate hooks (build tag verif) and the race detector only witness schedules that occur; infeasible schedules (second goroutine blocked on the lock) "
         "are recorded, not failed. Trusted: TLC, Go race detector, harness scheduler.",
    technique="TLA+ spec of sync x readers (Api.tla) + TLC exhaustive + gate-driven schedule replay + race-detector load run + TLC validation")

CHECKS["C19"] = dict(cat="model_checking", ref="4 C19", engine="tlc-history-enumeration",
    text="VersionLock.tla states the property over the ghost history (which build synced which height) and the intended start-up check over what the database "
         "contains; TLC proves `refuses <=> MustRefuse` for every history of <= 3 (thorough 4) sessions x <= 3 blocks x all fork tables and mirrors the code "
         "statement by statement to enumerate every difference class; every exported history (plus sampled and seeded longer ones) is realised with real "
         "sessions (node.NewPegnetd, InsertSynced in a transaction, per-session sync version / fork table) and the observed refusals are re-decided by TLC.",
    note="Conformance domain: pre-tracking sessions form a prefix of the history; non-trivial forks at heights >= 1. Trusted: TLC, the session realisation in "
         "harness/cmd/c19.",
    technique="TLA+ spec (VersionLock.tla) + TLC exhaustive history enumeration + replay of every history into the real start-up check + TLC validation")

PENDING = {}

def main():
    props = [json.loads(l) for l in open(os.path.join(V, "properties.jsonl"))]
    checks = []
    na = []
    for p in props:
        i = p["id"]
        if i in CHECKS:
            c = CHECKS[i]
            n = i.lower()
            checks.append({
                "property_id": i,
                "quick_cmd": "python3 checks/%s.py --tier quick" % n,
                "thorough_cmd": "python3 checks/%s.py --tier thorough" % n,
                "evidence_file": "/verif/evidence/%s.json" % i,
                "replay_cmd_template": "python3 checks/replay.py {path}",
                "engine": c.get("engine", "tlc+trace-validation"),
                "level_claimed": {"category": c["cat"], "text": c["text"], "design_ref": "DESIGN.md section " + c["ref"]},
                "level_note": c.get("note", LEDGER_NOTE),
                "technique": c["technique"],
            })
        else:
            na.append({"property_id": i, "reason": PENDING.get(i, "check not built yet in this session (work in progress; see DESIGN.md section 4 for the planned TLA+ model and binding)")})
    m = {
        "version": 1,
        "setup_cmd": "make -C /verif setup",
        "hooks": {"guard": "verif", "enable": "go build -tags verif (harness module /verif/harness with replace github.com/pegnet/pegnetd => /repo)",
                  "baseline_off_cmd": "cd /repo && GOFLAGS=-mod=mod go test -vet=off -count=1 ./...",
                  "source_commits": HOOK_COMMITS, "add_only": True},
        "engines": [
            {"name": "tlc-exhaustive", "path": "/verif/tla", "serves_properties": sorted(CHECKS), "kind_free_text": "TLC model checking of the TLA+ specification with small constants"},
            {"name": "trace-validation", "path": "/verif/tla/Trace_Ledger.tla", "serves_properties": sorted(CHECKS), "kind_free_text": "TLC validates NDJSON traces recorded from the real node (harness/cmd/vh) against the specification"},
            {"name": "scenario-replay", "path": "/verif/harness", "serves_properties": sorted(CHECKS), "kind_free_text": "abstract scenarios concretised into signed Factom entries, served by a fake factomd to the real node"},
        ],
        "checks": checks,
        "notes": "Model-based verification with an explicit TLA+ specification; see DESIGN.md.",
        "not_applicable": na,
    }
    json.dump(m, open(os.path.join(V, "MANIFEST.json"), "w"), indent=1)

HOOK_COMMITS = ["fdd0f01", "853c3fd", "fb6b1fb"]
if __name__ == "__main__":
    main()

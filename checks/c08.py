#!/usr/bin/env python3
"""C08 Sync liveness: no chain content can crash the daemon or wedge a block."""
import os, random, sys
sys.path.insert(0, os.path.dirname(os.path.abspath(__file__)))
import vlib, scen, lcheck
import c12, c14

PID = "C08"
HEX = lambda b: bytes(b).hex()


def raw_menu(rnd):
    """Adversarial raw entries: (extids hex list, content hex)."""
    big = HEX(rnd.getrandbits(8) for _ in range(9000))
    return [
        ([], ""), ([], HEX(b"{}")), ([HEX(b"x")], HEX(b"garbage")), ([HEX(b"1"), HEX(b"2")], HEX(b'{"version":1}')),
        ([HEX(b"\x07")], ""), ([HEX(b"\x07"), "00" * 32], ""), ([HEX(b"\x07"), "00" * 32, "00" * 96], "00"),
        ([HEX(b"\x05"), "11" * 32, "22"], HEX(b"\x0a\x01a")), (["", "", ""], ""), (["00" * 8, "00" * 8, "05"], "ff" * 40),
        (["aa"] * 40, HEX(b"[]")), ([HEX(b"1600000000")], HEX(b'{"version":1,"transactions":[]}')),
        ([HEX(b"1600000000"), "01" + "00" * 32, "00" * 64], HEX(b'{"version":1,"transactions":[{"input":{"address":"FA2jK2HcLnRdS94dEcU27rF3meoJfpUcZPSinpb7AwQvPRY6RL1Q","amount":1,"type":"PEG"},"transfers":[]}]}')),
        ([], big), (["00"], HEX(b"null")), (["00", "01"], HEX(b'"string"')),
    ]


def family(seed, tier):
    rnd = random.Random(seed * 6700417 + 5)
    docs = []
    n = 4 if tier == "quick" else 16
    for k in range(n):
        legacy = (k % 4 == 3)
        if legacy:
            s = scen.legacy_chain(seed * 10 + k, name="c08-%d" % k, tip=24, peg_requests=True)
            hs = [h for h in sorted(s.blocks) if h >= 6]
            users = ["A1", "A2", "A3"]
        else:
            s = scen.mixed_chain(seed * 10 + k, name="c08-%d" % k, blocks=8, users=4, null_out=False)
            hs = [h for h in sorted(s.blocks) if h >= 9]
            users = ["A1", "A2", "A3", "A4"]
        menu = raw_menu(rnd)
        # 1. garbage on all three chains
        for h in rnd.sample(hs, min(4, len(hs))):
            b = s.block(h)
            for (ext, content) in rnd.sample(menu, 5):
                which = rnd.choice(["tx", "opr", "spr"])
                if which == "tx":
                    b.setdefault("entries", []).insert(rnd.randint(0, len(b.get("entries", []))), {"id": s.eid("raw"), "signer": "", "txs": [], "raw": {"extids": ext, "content": content}})
                elif which == "opr" and "opr" in b:
                    b["opr"].setdefault("raw", []).append({"extids": ext, "content": content})
                elif which == "spr" and "spr" in b:
                    b["spr"].setdefault("raw", []).append({"extids": ext, "content": content})
        # 1b. well-signed entries whose content slips through the decoder's length accounting (no "type" member)
        for h in rnd.sample(hs, min(2, len(hs))):
            u = rnd.choice(users)
            amt = rnd.choice([0, 0, 1, 5])
            filler = rnd.choice(['"aaaaaaaaaaaaaaaaaaaaaaa":0', '"bbbbbbbbbbbbbbbbbbbbbb":10', '"cccccccccccccccccccc":"x"'])
            s.block(h).setdefault("entries", []).append({"id": s.eid("lc"), "signer": u, "txs": [],
                "content": '{"version":1,"transactions":[{"input":{"address":"${%s}","amount":%d,%s},"transfers":[{"address":"${%s}","amount":%d}]}]}' % (u, amt, filler, users[0], amt)})
        # 2. repeated entry hashes in every state: same block, next block, later blocks
        if not legacy:
            ents = [(h, e) for h in hs for e in s.blocks[h].get("entries", []) if e.get("txs") and not e.get("dupOf") and not e.get("raw")]
            for (h, e) in rnd.sample(ents, min(6, len(ents))):
                where = rnd.choice([h, h + 1, h + 2, h + 3])
                if where <= s.s["tip"]:
                    s.dup(where, e["id"])
        docs.append((s.s["name"], s.doc()))
    # price records a miner / staker can write: OPR and SPR winners disagreeing by every margin around the tolerance band of each
    # 2.0 era (a disagreement is content, it may not keep a block from being applied), records one short of a full set, either chain alone
    for k in range(1 if tier == "quick" else 4):
        b = c12.live(seed + 41, k, tier)
        b.s["name"] = "c08-bands-%d" % k
        docs.append((b.s["name"], b.doc()))
    # a payout height at which an asset held by stakers has no rate (OPR and SPR disagree beyond the band): still just a block
    z = c14.chain(seed + 3, 3, "quick")
    z.s["name"] = "c08-zero-rate-snapshot"
    docs.append((z.s["name"], z.doc()))
    return docs


def main():
    return lcheck.run_check(PID, family, {"C08"}, crash_owner=True,
        rule="live-era and legacy chains with adversarial content: raw entries with 0/1/many/empty external ids, empty / huge / non-JSON / "
             "half-valid content on the transaction, OPR and SPR chains, and copies of earlier entries (pending, executed, rejected) in the same, "
             "the next and later blocks; the real daemon must commit every block (wedge = the same height requested again and again without a commit; "
             "crash = panic / fatal exit); the traces of the runs that finish are validated by TLC (the garbage must be inert); "
             "non-trivial = every scenario (all contain hostile entries)",
        corrupt=lcheck.corrupt_balance)


if __name__ == "__main__":
    vlib.main(main)

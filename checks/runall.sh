#!/bin/sh
# usage: checks/runall.sh <tier> <seed...>   - runs every check once per seed, prints rc and wall time
tier=$1; shift
cd "$(dirname "$0")/.."
for seed in "$@"; do
  for c in checks/c[0-9][0-9].py; do
    id=$(basename $c .py | tr a-z A-Z)
    s=$(date +%s)
    VERIF_SEED=$seed python3 $c --tier $tier > /tmp/runall_$id.log 2>&1
    rc=$?
    e=$(( $(date +%s) - s ))
    echo "seed=$seed $id rc=$rc ${e}s $(grep -c '^VIOLATION' /tmp/runall_$id.log) violations $(grep -c '^KNOWN-FINDING' /tmp/runall_$id.log) known $(grep '^INFRA' /tmp/runall_$id.log | head -1 | cut -c1-150)"
  done
done

#!/usr/bin/env python3
"""C19  Version lock: start-up refuses a database <=> MustRefuse(history, build, forks).

Parts (see CONTRACT.md):
  1. TLC model-checks tla/VersionLock.tla exhaustively (MC_VersionLock): the intended start-up
     check decides exactly the property `MustRefuse` for every reachable database and every
     starting build; the statement-by-statement mirror of CheckHardForks differs from the
     intended design only in the named difference classes; with the deviation switch
     DevLegacyBackfillOffByOne TLC must produce the legacy-edge counterexample.
  2. TLC exports the histories / fork tables it explored; harness/cmd/c19 realises each case
     with the real code (real sessions, real node.NewPegnetd) and records what it did.
  3. TLC (Trace_VersionLock) recomputes MustRefuse from the abstract history of every
     observation and compares with the observed verdicts.  The verdict is TLC's.
"""
import json, os, random, shutil, sys, threading, time
from concurrent.futures import ThreadPoolExecutor

sys.path.insert(0, os.path.dirname(os.path.abspath(__file__)))
import vlib

PID = "C19"
DEVIATION = "DevLegacyBackfillOffByOne"

MC_TEMPLATE = """CONSTANTS
    MaxSessions = %(sessions)d
    MaxBlocks = 3
    MaxVersion = 2
    MinForkHeight = %(minfork)d
    MaxForkHeight = 7
    DevLegacyBackfillOffByOne = %(dev)s
    LegacyAnywhere = %(anywhere)s
    AllowNoHf = TRUE
    SingleTable = %(single)s
    ExplainEdge = TRUE
    ExplainZero = TRUE
    ExplainGap = TRUE
INIT Init
NEXT Next
INVARIANTS %(inv)s
CHECK_DEADLOCK FALSE
"""

TRACE_CFG = """CONSTANTS
    Dev = %s
    Block = 500
INIT Init
NEXT Next
INVARIANT Accepted
CHECK_DEADLOCK FALSE
"""

PARAMS = {
    # mc_sessions: bound of the exhaustive TLC run.  Replay against the real code:
    #   all_tables: every exported history up to this many sessions x every exported fork table
    #   one_fork:   every exported history up to this many sessions x every single-fork table
    #   sample:     seeded sample of (history, table) pairs with up to sample_sessions sessions
    #   rnd:        seeded long random histories (6 sessions, 5 blocks, 3 forks, versions -1..3)
    "quick":    dict(mc_sessions=3, all_tables=1, one_fork=2, sample_sessions=3, sample=16000,
                     rnd=2000, mc_workers=8,
                     mc_inv="TypeOK AllInv"),
    "thorough": dict(mc_sessions=4, all_tables=2, one_fork=3, sample_sessions=4, sample=60000,
                     rnd=10000, mc_workers=16,
                     mc_inv="TypeOK AllInv"),
}


def mc_cfg(sessions, inv, dev=False, anywhere=True, single=False, minfork=0):
    b = lambda x: "TRUE" if x else "FALSE"
    return MC_TEMPLATE % dict(sessions=sessions, inv=inv, dev=b(dev), anywhere=b(anywhere),
                              single=b(single), minfork=minfork)


def tlc_printed(out, tag):
    """JSON documents printed by PrintT(<<tag, ToJson(..)>>)."""
    res = []
    pre = '<<"%s", ' % tag
    for ln in out.splitlines():
        if ln.startswith(pre) and ln.endswith(">>"):
            res.append(json.loads(json.loads(ln[len(pre):-2])))
    return res


def tlc(*a, **kw):
    """vlib.tlc, repeated once if the JVM was killed by a signal from outside (shared sandbox)."""
    r = vlib.tlc(*a, **kw)
    if r.violation is None and r.rc in (143, 137, 130, -15, -9):
        time.sleep(2)
        r = vlib.tlc(*a, **kw)
    return r


# ------------------------------------------------------------------ model checking

def run_mc(p, result):
    try:
        cfg = mc_cfg(p["mc_sessions"], p["mc_inv"])
        r = tlc("MC_VersionLock", cfg="c19_mc.cfg", files=[("c19_mc.cfg", cfg)],
                     workers=p["mc_workers"], timeout=3000, heap="12g")
        result["mc"] = r
        # the same invariants in their operator form (AllInv works on verdict vectors), and the
        # agreement of both forms, on the 2-session model
        cfg = mc_cfg(2, "TypeOK PropertyInv CodeDiffClasses DevModelFaithful FixFaithful "
                        "FixDiffClasses VectorsOK")
        result["tie"] = tlc("MC_VersionLock", cfg="c19_tie.cfg", files=[("c19_tie.cfg", cfg)],
                            workers=4, timeout=900, heap="4g")
        # the deviation switched on must be visible to TLC (sanity of the spec itself)
        cfg = mc_cfg(3, "TypeOK PropertyInv", dev=True)
        result["dev"] = tlc("MC_VersionLock", cfg="c19_dev.cfg", files=[("c19_dev.cfg", cfg)],
                                 workers=2, timeout=600, heap="2g")
    except BaseException as e:       # re-raised in the main thread
        result["exc"] = e


def export(sessions):
    cfg = mc_cfg(sessions, "TypeOK ExportAll", anywhere=False, single=True, minfork=1)
    r = tlc("MC_VersionLock", cfg="c19_exp.cfg", files=[("c19_exp.cfg", cfg)], workers=1,
                 timeout=900, heap="4g")
    if not r.ok:
        raise vlib.Infra("export run failed: %s %s\n%s" % (r.violation, r.error, r.out[-3000:]))
    hists = [h["hist"] for h in tlc_printed(r.out, "C19HIST")]
    tables = tlc_printed(r.out, "C19TABLE")
    if len(hists) != r.distinct or not tables:
        raise vlib.Infra("export: %d histories printed, %d states" % (len(hists), r.distinct))
    hists.sort(key=lambda h: (len(h), json.dumps(h)))
    tables = [sorted(t, key=lambda f: (f["h"], f["m"])) for t in tables]
    tables.sort(key=json.dumps)
    return hists, tables, r


# ------------------------------------------------------------------ cases

def build_cases(p, hists, tables, rng):
    builds = [0, 1, 2]
    cases = []

    def add(prefix, hist, table, bl=builds):
        cases.append({"id": "%s%d" % (prefix, len(cases)), "forks": table, "hist": hist, "builds": bl})

    forced = lambda h: [dict(s, force=True) for s in h]
    # (a) exhaustive: short histories against every exported table, longer ones against
    #     every single-fork table
    single = [t for t in tables if len(t) == 2]
    n_hist = 0
    for h in hists:
        if len(h) <= p["all_tables"]:
            ts = tables
        elif len(h) <= p["one_fork"]:
            ts = single
        else:
            continue
        n_hist += 1
        for t in ts:
            add("x", forced(h), t)
    n_exh = len(cases)
    # (b) seeded sample of the remaining (history, table) pairs exported by TLC
    longer = [h for h in hists if p["all_tables"] < len(h) <= p["sample_sessions"]]
    for _ in range(p["sample"] if longer else 0):
        add("s", forced(rng.choice(longer)), rng.choice(tables))
    n_sample = len(cases) - n_exh
    # (c) seeded long random histories in the same abstract format: up to 6 sessions, up to 5
    #     blocks, 3 forks, versions up to 3; pre-tracking sessions form a prefix; a refused
    #     session is either skipped or forced with --no-hf
    for _ in range(p["rnd"]):
        ns = rng.randint(1, 6)
        nl = rng.choice([0, 0, 1, 1, 2])
        hist, bounds, top = [], [], 0
        for i in range(ns):
            if i < nl:
                s = {"v": -1, "n": rng.randint(1, 5), "force": True}
            else:
                s = {"v": rng.randint(0, 3), "n": rng.randint(0, 5), "force": rng.random() < 0.7}
            hist.append(s)
            top += s["n"]
            bounds.append(top)
        cand = sorted(set(x for b in bounds for x in (b - 1, b, b + 1) if x >= 1) | {1, top + 2})
        table = [{"h": 0, "m": -1}]
        for _ in range(rng.randint(1, 3)):
            h = rng.choice(cand) if rng.random() < 0.8 else rng.randint(1, 31)
            table.append({"h": h, "m": rng.randint(0, 3)})
        table.sort(key=lambda f: (f["h"], f["m"]))
        add("r", hist, table, [0, 1, 2, 3])
    return cases, dict(exhaustive=n_exh, sampled=n_sample, random=len(cases) - n_exh - n_sample,
                       histories_exhaustive=n_hist, histories_exported=len(hists),
                       tables=len(tables), single_fork_tables=len(single))


# ------------------------------------------------------------------ replay against the real code

def replay(binary, cases, work):
    cf = os.path.join(work, "cases.ndjson")
    with open(cf, "w") as f:
        for c in cases:
            f.write(json.dumps(c, separators=(",", ":")) + "\n")
    shm = "/dev/shm" if os.path.isdir("/dev/shm") and os.access("/dev/shm", os.W_OK) else work
    chunk = 400        # a refused NewPegnetd leaks its *sql.DB: keep processes short-lived
    jobs = [(i, min(i + chunk, len(cases))) for i in range(0, len(cases), chunk)]
    tmpdirs = []

    def one(j):
        a, b = j
        out = os.path.join(work, "obs-%d.ndjson" % a)
        tmp = vlib.scratch("c19db-") if shm == work else os.path.join(
            shm, "verif-c19-%d-%d" % (os.getpid(), a))
        tmpdirs.append(tmp)
        rc, o = vlib.run([binary, "-in", cf, "-out", out, "-from", str(a), "-to", str(b), "-tmp", tmp],
                         timeout=1800)
        shutil.rmtree(tmp, ignore_errors=True)
        if rc != 0:
            raise vlib.Infra("harness c19 failed (%d) on lines %d..%d:\n%s" % (rc, a, b, o[-3000:]))
        return out

    try:
        with ThreadPoolExecutor(max_workers=max(2, vlib.NCPU)) as ex:
            outs = list(ex.map(one, jobs))
    finally:
        for t in tmpdirs:
            shutil.rmtree(t, ignore_errors=True)
    obs = []
    for o in outs:
        with open(o) as f:
            obs.extend(ln for ln in f.read().splitlines() if ln.strip())
    if len(obs) != len(cases):
        raise vlib.Infra("harness returned %d observations for %d cases" % (len(obs), len(cases)))
    for ln in obs:
        if '"infra":' in ln:
            raise vlib.Infra("harness could not realise a case: " + ln[:1500])
    return obs


# ------------------------------------------------------------------ TLC decides

def validate(lines, dev=False, par=None):
    """Run Trace_VersionLock over the observation lines (split over several TLC processes).
    Returns (failed check records, number of verdicts checked, number of TLC states)."""
    if not lines:
        return [], 0, 0
    per = 25000
    chunks = [lines[i:i + per] for i in range(0, len(lines), per)]
    cfg = TRACE_CFG % ("TRUE" if dev else "FALSE")

    def one(ch):
        r = tlc("Trace_VersionLock", cfg="c19_tr.cfg", workers=1, timeout=2400, heap="3g",
                     files=[("c19_tr.cfg", cfg), ("c19_obs.ndjson", "\n".join(ch) + "\n")])
        summ = tlc_printed(r.out, "C19SUMMARY")
        if not summ or summ[-1]["lines"] != len(ch):
            raise vlib.Infra("trace validation did not complete: %s %s\n%s"
                             % (r.violation, r.error, r.out[-3000:]))
        seen, bad = set(), []
        for blk in tlc_printed(r.out, "C19BAD"):
            for b in blk:
                k = (b["id"], b["pos"])
                if k not in seen:
                    seen.add(k)
                    bad.append(b)
        if r.ok and summ[-1]["failed"] == 0 and not bad:
            return [], summ[-1]["checks"], r.distinct
        if r.violation == "Accepted" and bad and len(bad) == summ[-1]["failed"]:
            return bad, summ[-1]["checks"], r.distinct
        raise vlib.Infra("trace validation: unexpected TLC result %s %s\n%s"
                         % (r.violation, r.error, r.out[-3000:]))

    with ThreadPoolExecutor(max_workers=par or max(2, vlib.NCPU // 2)) as ex:
        res = list(ex.map(one, chunks))
    bad = [b for r in res for b in r[0]]
    return bad, sum(r[1] for r in res), sum(r[2] for r in res)


def self_test(lines, failing_ids):
    """Binding self-test: corrupt observed fields of accepted lines; TLC must reject them."""
    picks = []
    for ln in lines:
        o = json.loads(ln)
        if o["id"] in failing_ids or not o["obs"]["final"]:
            continue
        if not picks:
            o["id"] = "selftest-verdict"
            o["obs"]["final"][0]["refused"] = not o["obs"]["final"][0]["refused"]
            o["obs"]["final"][0]["nohf"] = "acc"
            picks.append(o)
        elif o["obs"]["final"][0]["nohf"] == "acc":
            o["id"] = "selftest-nohf"
            o["obs"]["final"][0]["nohf"] = "ref"
            picks.append(o)
            break
    if len(picks) < 2:
        raise vlib.Infra("self-test: no accepted observation to corrupt")
    bad, _, _ = validate([json.dumps(o) for o in picks], par=1)
    got = set(b["id"] for b in bad)
    if got != {"selftest-verdict", "selftest-nohf"}:
        raise vlib.Infra("self-test: TLC accepted a corrupted observation (rejected only %s)" % sorted(got))
    return 2


# ------------------------------------------------------------------ classification

def legacy_edge_signature(case, rec):
    """Concrete signature of the known legacy-edge defect: the start-up was accepted although it
    must be refused, and the pre-tracking prefix of the history ends exactly on a fork height
    that demands a tracked version."""
    if rec["refused"] or not rec["expected"]:
        return False
    by = rec["by"]
    n = 0
    while n < len(by) and by[n] == -1:
        n += 1
    return n >= 1 and any(f["h"] == n and f["m"] > -1 for f in case["forks"])


def main():
    t0 = time.time()
    tier = vlib.tier()
    p = PARAMS[tier]
    rng = random.Random(vlib.seed() * 1000003 + (17 if tier == "thorough" else 0))
    work = vlib.scratch("c19-")
    try:
        return body(t0, tier, p, rng, work)
    finally:
        shutil.rmtree(work, ignore_errors=True)


def body(t0, tier, p, rng, work):
    # osusergo: LXRHash locates its table through os/user; with this tag $HOME (set to a scratch
    # directory by the harness) is honoured instead of the real home directory
    binary = vlib.go_build("c19", "c19", tags="verif,osusergo")

    # model checking runs beside export / replay
    mcres = {}
    th = threading.Thread(target=run_mc, args=(p, mcres))
    th.start()
    try:
        hists, tables, rexp = export(p["sample_sessions"])
        cases, counts = build_cases(p, hists, tables, rng)
        t1 = time.time()
        obs = replay(binary, cases, work)
        t2 = time.time()
        bad, nchecks, tstates = validate(obs)
        t3 = time.time()
    finally:
        th.join()
    if "exc" in mcres:
        raise mcres["exc"]
    mc, dev, tie = mcres["mc"], mcres["dev"], mcres["tie"]
    for r in (mc, tie):
        if not r.ok:
            # an invariant of the specification itself failed: a defect of the check, not a verdict
            named = [l for l in r.out.splitlines() if l.startswith('<<"C19INV"')][:1]
            raise vlib.Infra("MC_VersionLock: %s %s %s\n%s" % (r.violation, named, r.error, r.out[-3000:]))
    if dev.violation != "PropertyInv":
        raise vlib.Infra("MC_VersionLock with %s=TRUE did not produce the counterexample: %s %s"
                         % (DEVIATION, dev.violation, dev.error))

    by_id = {}
    failing_ids = set(b["id"] for b in bad)
    for ln in obs:
        # cheap pre-filter before parsing
        o = None
        if failing_ids:
            i = ln.find('"id":"') + 6
            cid = ln[i:ln.find('"', i)]
            if cid in failing_ids:
                o = json.loads(ln)
                by_id[cid] = o
    n_self = self_test(obs, failing_ids)

    # classify failed checks
    explained, unexplained = [], []
    for b in bad:
        (explained if legacy_edge_signature(by_id[b["id"]], b) else unexplained).append(b)
    if explained and not unexplained:
        # the observations must be accepted by TLC once the deviation is switched on
        ids = sorted(set(b["id"] for b in explained))
        dbad, _, _ = validate([json.dumps(by_id[i]) for i in ids], dev=True)
        still = set(b["id"] for b in dbad)
        # failures of those cases that the deviation does not explain
        moved = [b for b in explained if b["id"] in still]
        explained = [b for b in explained if b["id"] not in still]
        unexplained += moved

    findings = [f for f in vlib.open_findings(PID) if f.get("deviation") == DEVIATION]
    rc = 0
    nviol = 0
    if unexplained or (explained and not findings):
        which = unexplained if unexplained else explained
        ids = []
        for b in which:
            if b["id"] not in ids:
                ids.append(b["id"])
        art = {
            "property": PID,
            "what": ("start-up verdict differs from MustRefuse" if unexplained else
                     "legacy database synced exactly to a fork height is accepted "
                     "(deviation %s, not listed as an open finding)" % DEVIATION),
            "failed_checks": which[:50],
            "cases": [by_id[i] for i in ids[:20]],
            "how_to_replay": "write the 'cases' lines (without 'obs') to a file and run "
                             "bin/c19 -in FILE -out OBS -tmp DIR; then "
                             "tlc -config Trace_VersionLock.cfg Trace_VersionLock.tla with OBS as c19_obs.ndjson",
            "position": "pos i = start of session i; pos 100+j = final start-up of builds[j]",
        }
        path = vlib.save_replay(PID, "violation-%s-seed%d.json" % (tier, vlib.seed()), art)
        vlib.violation(PID, path)
        nviol = len(set(b["id"] for b in which))
        rc = 1
    elif explained:
        ex = explained[0]
        c = by_id[ex["id"]]
        vlib.known(PID, "deviation=%s legacy database synced exactly to a fork height is accepted "
                        "(%d start-ups in %d cases; e.g. forks=%s history=%s build=%d)"
                   % (DEVIATION, len(explained), len(set(b["id"] for b in explained)),
                      json.dumps(c["forks"], separators=(",", ":")),
                      json.dumps(ex["by"], separators=(",", ":")), ex["build"]))

    samples = [json.loads(obs[i]) for i in sorted(set([0, len(obs) // 3, len(obs) - 1]))]
    for s in samples:
        for st in s["obs"]["sess"] + s["obs"]["final"]:
            st.pop("text", None)
    cov = {
        "states": mc.distinct + tie.distinct,
        "transitions": mc.generated + tie.generated,
        "traces_validated_against_impl": len(obs),
        "samples": samples,
        "exhaustive": True,
        "mc_bound": "<=%d sessions x <=3 blocks, versions -1..2, 1-2 forks at heights 0..7 "
                    "(min version 0..2) plus the {0,-1} entry; every starting build 0..2"
                    % p["mc_sessions"],
        "mc_invariants": ["TypeOK", "AllInv = PropertyInv /\\ CodeDiffClasses /\\ DevModelFaithful /\\ "
                          "FixFaithful /\\ FixDiffClasses", "VectorsOK (2-session model)"],
        "mc_states_main": mc.distinct,
        "mc_wall_s": round(mc.wall, 1),
        "mc_dev_counterexample": dev.violation,
        "export_states": rexp.distinct,
        "cases": counts,
        "startup_verdicts_checked": nchecks,
        "trace_spec_states": tstates,
        "failed_checks": len(bad),
        "failed_explained_by_known_deviation": len(explained),
        "selftest_corruptions_rejected": n_self,
        "replay_wall_s": round(t2 - t1, 1),
        "validate_wall_s": round(t3 - t2, 1),
    }
    vlib.write_evidence(PID, "model_checking", cov, time.time() - t0, violations=nviol, assumptions=[
        "conformance domain: sessions of pre-tracking builds form a prefix of the history "
        "(an untracked build run after tracking began is explored in the model only: class D3)",
        "conformance domain: non-trivial forks lie above the height a fresh database starts from "
        "(fork at height 0 with minimum version > -1 is explored in the model only: class D2)",
        "every build of a history carries the same Hardforks table, which contains {0,-1}",
        "a session is the version-lock part of DBlockSync: Begin, InsertSynced(height), Commit",
        "a pre-tracking build is emulated by the real InsertSynced with its pn_sync_version row "
        "deleted inside the same transaction",
    ])
    print("C19 %s seed=%d: TLC %d states; %d cases replayed (%d start-up verdicts), %d failed, "
          "%d explained by %s; %.0fs" % (tier, vlib.seed(), mc.distinct, len(obs), nchecks, len(bad),
                                         len(explained), DEVIATION, time.time() - t0))
    return rc


if __name__ == "__main__":
    def _main_with_config():
        import conf
        rc = main()
        n = conf.check("C19")      # defaults the daemon is built with vs. Config.tla
        return 1 if n else rc
    vlib.main(_main_with_config)

"""Shared helpers for the /verif checks (stdlib only).

Exit-code contract of every check:
  0  property held on everything explored (KNOWN-FINDING lines allowed)
  1  a line "VIOLATION property=<id> replay=<path>" was printed
  2  infrastructure trouble (build failure, TLC crash, timeout, ...) - never a verdict
"""
import json, os, re, shutil, subprocess, sys, tempfile, time, hashlib

VERIF = os.path.dirname(os.path.dirname(os.path.abspath(__file__)))
REPO = os.environ.get("VERIF_REPO", "/repo")
TLA = os.path.join(VERIF, "tla")
HARNESS = os.path.join(VERIF, "harness")
# evidence and replay artefacts of runs against a scratch tree (seeded changes) never overwrite those of /repo
_ALT = os.environ.get("VERIF_OUT") if REPO != "/repo" else None
EVID = os.path.join(_ALT, "evidence") if _ALT else os.path.join(VERIF, "evidence")
OUT = os.path.join(_ALT, "out") if _ALT else os.path.join(VERIF, "out")
BIN = os.path.join(VERIF, "bin")
NCPU = os.cpu_count() or 4

GOENV = dict(GOFLAGS="-mod=mod", GOPROXY="off", GOSUMDB="off", GOTOOLCHAIN="local",
             CGO_ENABLED="1")


class Infra(Exception):
    """Infrastructure failure: exit 2, never a verdict."""


def seed():
    try:
        return int(os.environ.get("VERIF_SEED", "1"))
    except ValueError:
        return 1


def tier(argv=None):
    argv = sys.argv if argv is None else argv
    t = os.environ.get("VERIF_TIER", "")
    for i, a in enumerate(argv):
        if a == "--tier" and i + 1 < len(argv):
            t = argv[i + 1]
        elif a.startswith("--tier="):
            t = a.split("=", 1)[1]
    return t if t in ("quick", "thorough") else "quick"


def scratch(prefix="verif-"):
    base = os.environ.get("VERIF_TMP") or tempfile.gettempdir()
    return tempfile.mkdtemp(prefix=prefix, dir=base)


def run(cmd, cwd=None, env=None, timeout=None, check=False, stdin=None):
    e = dict(os.environ)
    if env:
        e.update(env)
    try:
        p = subprocess.run(cmd, cwd=cwd, env=e, timeout=timeout, stdout=subprocess.PIPE,
                           stderr=subprocess.STDOUT, input=stdin, text=True, errors="replace")
    except subprocess.TimeoutExpired as ex:
        out = ex.stdout if isinstance(ex.stdout, str) else (ex.stdout or b"").decode("utf8", "replace")
        raise Infra("timeout after %ss: %s\n%s" % (timeout, " ".join(map(str, cmd)), out[-2000:]))
    if check and p.returncode != 0:
        raise Infra("command failed (%d): %s\n%s" % (p.returncode, " ".join(map(str, cmd)), p.stdout[-4000:]))
    return p.returncode, p.stdout


_built = {}
_prepared = set()


def go_build(pkg, name, tags="verif", race=False):
    """Build harness package ./cmd/<pkg> against /repo's working tree. Returns binary path."""
    key = (pkg, name, tags, race)
    if key in _built:
        return _built[key]
    harness = HARNESS
    bindir = BIN
    if os.path.realpath(REPO) != "/repo":
        # mutation testing against a scratch worktree: private copy of the harness module
        # whose replace directive points at that worktree; binaries go next to it.
        tag = hashlib.sha256(os.path.realpath(REPO).encode()).hexdigest()[:10]
        harness = os.path.join(tempfile.gettempdir(), "verif-harness-" + tag)
        if harness not in _prepared:
            if os.path.exists(harness):
                shutil.rmtree(harness)
            shutil.copytree(HARNESS, harness)
            _prepared.add(harness)
        gm = open(os.path.join(harness, "go.mod")).read()
        gm = gm.replace("github.com/pegnet/pegnetd => /repo", "github.com/pegnet/pegnetd => " + os.path.realpath(REPO))
        open(os.path.join(harness, "go.mod"), "w").write(gm)
        bindir = os.path.join(harness, "bin")
    os.makedirs(bindir, exist_ok=True)
    out = os.path.join(bindir, name)
    # go.sum of the repo is the source of truth for the shared dependencies
    try:
        shutil.copyfile(os.path.join(REPO, "go.sum"), os.path.join(harness, "go.sum"))
    except OSError:
        pass
    cmd = ["go", "build", "-o", out]
    if tags:
        cmd += ["-tags", tags]
    if race:
        cmd += ["-race"]
    cmd += ["./cmd/" + pkg]
    env = dict(GOENV)
    rc, o = run(cmd, cwd=harness, env=env, timeout=900)
    if rc != 0:
        raise Infra("go build failed for %s:\n%s" % (pkg, o[-6000:]))
    _built[key] = out
    return out


# ---------------------------------------------------------------- TLC

class TlcResult:
    def __init__(self):
        self.rc = None
        self.out = ""
        self.generated = 0
        self.distinct = 0
        self.depth = 0
        self.violation = None      # name of violated invariant / property, or "deadlock", "assert", ...
        self.error = None          # infrastructure-ish error text
        self.wall = 0.0
        self.coverage = {}

    @property
    def ok(self):
        return self.rc == 0 and self.violation is None and self.error is None


def tlc(module, cfg=None, workers="auto", extra=(), timeout=600, cwd=None, files=(), heap=None,
        dfs=False, deadlock=True, keep=False, defines=None):
    """Run TLC on tla/<module>.tla in a scratch copy of /verif/tla (plus extra files).

    files: iterable of (name, path-or-bytes) copied into the scratch dir (trace files etc).
    Returns TlcResult. Raises Infra on JVM/tool level errors.
    """
    d = scratch("tlc-")
    try:
        for f in os.listdir(TLA):
            if f.endswith(".tla") or f.endswith(".cfg"):
                shutil.copyfile(os.path.join(TLA, f), os.path.join(d, f))
        for name, src in files:
            dst = os.path.join(d, name)
            if isinstance(src, (bytes, bytearray)):
                open(dst, "wb").write(src)
            elif isinstance(src, str) and os.path.exists(src):
                shutil.copyfile(src, dst)
            else:
                open(dst, "w").write(src)
        cfgname = cfg or (module + ".cfg")
        cmd = ["tlc", "-metadir", os.path.join(d, "states"), "-workers", str(workers),
               "-config", cfgname]
        if not deadlock:
            cmd += ["-deadlock"]
        cmd += list(extra) + [module + ".tla"]
        env = {}
        jopts = ["-Xss512m"]
        if heap:
            jopts.append("-Xmx" + heap)
        if dfs:
            jopts.append("-Dtlc2.tool.queue.IStateQueue=StateDeque")
        env["JAVA_TOOL_OPTIONS"] = " ".join(jopts)
        t0 = time.time()
        rc, out = run(cmd, cwd=d, env=env, timeout=timeout)
        r = parse_tlc(rc, out)
        r.wall = time.time() - t0
        r.dir = d if keep else None
        return r
    finally:
        if not keep:
            shutil.rmtree(d, ignore_errors=True)


def parse_tlc(rc, out):
    r = TlcResult()
    r.rc = rc
    r.out = out
    m = None
    for m in re.finditer(r"(\d[\d,]*) states generated, (\d[\d,]*) distinct states found", out):
        pass
    if m:
        r.generated = int(m.group(1).replace(",", ""))
        r.distinct = int(m.group(2).replace(",", ""))
    m = re.search(r"The depth of the complete state graph search is (\d+)", out)
    if m:
        r.depth = int(m.group(1))
    m = re.search(r"Invariant (\S+) is violated", out)
    if m:
        r.violation = m.group(1)
    elif re.search(r"Action property (\S+) is violated", out):
        r.violation = re.search(r"Action property (\S+) is violated", out).group(1)
    elif "Temporal properties were violated" in out:
        r.violation = "temporal"
    elif "Deadlock reached" in out:
        r.violation = "deadlock"
    elif re.search(r"The postcondition|Postcondition .* violated|POSTCONDITION", out) and "violated" in out:
        r.violation = "postcondition"
    elif "The first argument of Assert evaluated to FALSE" in out or "Assumption" in out and "is false" in out:
        r.violation = "assert"
    if r.violation is None and rc != 0:
        r.error = "tlc exit %d" % rc
    if "Model checking completed. No error has been found" not in out and r.violation is None \
            and "-simulate" not in out and r.error is None and rc == 0:
        # simulate mode and others do not print the completion line
        pass
    for m in re.finditer(r"<(\w+) line \d+, col \d+ to line \d+, col \d+ of module (\w+)>: (\d+):(\d+)", out):
        r.coverage[m.group(2) + "." + m.group(1)] = r.coverage.get(m.group(2) + "." + m.group(1), 0) + int(m.group(4))
    return r


# ---------------------------------------------------------------- evidence / findings

def write_evidence(pid, level, coverage, wall, violations=0, assumptions=(), extra=None):
    os.makedirs(EVID, exist_ok=True)
    ev = {
        "property_id": pid,
        "tier": tier(),
        "seed": seed(),
        "level": level,
        "coverage": coverage,
        "assumptions": list(assumptions),
        "wall_s": round(wall, 2),
        "violations": violations,
    }
    if extra:
        ev.update(extra)
    tmp = os.path.join(EVID, pid + ".json.tmp")
    with open(tmp, "w") as f:
        json.dump(ev, f, indent=1, sort_keys=True)
    os.replace(tmp, os.path.join(EVID, pid + ".json"))
    return ev


def known_findings():
    p = os.path.join(VERIF, "known_findings.json")
    if not os.path.exists(p):
        return []
    return json.load(open(p))


def open_findings(pid):
    return [f for f in known_findings() if f.get("property") == pid and f.get("status") == "open"]


def replay_dir(pid):
    d = os.path.join(OUT, pid)
    os.makedirs(d, exist_ok=True)
    return d


def save_replay(pid, name, obj):
    """Store a replay artefact (dict -> json, str -> text); returns path."""
    d = replay_dir(pid)
    p = os.path.join(d, name)
    if isinstance(obj, (dict, list)):
        with open(p, "w") as f:
            json.dump(obj, f, indent=1)
    else:
        with open(p, "w") as f:
            f.write(obj)
    return p


def violation(pid, path):
    print("VIOLATION property=%s replay=%s" % (pid, path), flush=True)


def known(pid, what):
    print("KNOWN-FINDING: property=%s %s" % (pid, what), flush=True)


def main(fn):
    """Wrap a check's main(): Infra -> exit 2."""
    try:
        rc = fn()
    except Infra as e:
        sys.stderr.write("INFRA: %s\n" % e)
        sys.exit(2)
    except subprocess.SubprocessError as e:
        sys.stderr.write("INFRA: %s\n" % e)
        sys.exit(2)
    sys.exit(rc or 0)


def digest(obj):
    return hashlib.sha256(json.dumps(obj, sort_keys=True).encode()).hexdigest()[:16]

#!/usr/bin/env python3
"""C16 PEG conversion bank (legacy era): limit, proportional yield, refund."""
import os, random, sys
sys.path.insert(0, os.path.dirname(os.path.abspath(__file__)))
import vlib, scen, lcheck

PID = "C16"


def chain(seed, k, tier):
    rnd = random.Random(seed * 733 + k)
    mode = ["below", "above", "ties", "spread", "mixedbatch"][k % 5]
    L = dict(scen.LEG)
    s = scen.Scn("c16-%d-%s" % (k, mode), sched=L, seed=seed * 10 + k, assets=["PEG", "pUSD", "pFCT", "pXBT"])
    users = [s.key("A%d" % i) for i in range(1, 8)]
    big = mode in ("above", "ties", "spread")
    burn = (200000 if big else 300) * 10**8           # FCT at 1.5 USD; PEG at 0.05 USD: 5000 PEG = 250 USD
    for h in range(1, 22):
        n = 10 if h < L["GradingV2"] else 25
        rated = not (mode == "spread" and h in (13, 14, 18)) and not (h in (15,) and k % 2 == 0)
        if rated:
            s.grade(h, n=n, spr=False)
        if h in (1, 2, 3):
            for u in users:
                s.burn(h, u, burn)
        if h == L["TxConv"]:
            for u in users:
                s.convert(h, u, "pFCT", burn // 2, "pUSD", track=False)
        if L["ConvLimit"] - 1 <= h <= 20:
            for i, u in enumerate(users):
                if mode == "ties":
                    amt = 40000 * 10**8 if i < 4 else 10**8
                elif mode == "above":
                    amt = rnd.randint(1000, 60000) * 10**8
                else:
                    amt = rnd.randint(1, 40) * 10**8
                if rnd.random() < 0.75 or (mode == "mixedbatch" and i == 0):
                    src = rnd.choice(["pFCT", "pUSD"])
                    if mode == "mixedbatch" and i == 0 and h in (L["ConvLimit"] + 1, L["V4"] + 1):
                        # a batch holding a PEG request AND another conversion (known finding: the other one is credited twice)
                        s.entry(h, u, [{"t": "pFCT", "amt": 10**8, "conv": "PEG"}, {"t": "pFCT", "amt": 10**8, "conv": "pUSD"}])
                    else:
                        s.convert(h, u, src, amt, "PEG", track=False)
    # PEG requests in batches that are rejected when they come up for execution (source never funded, amount above the balance, a
    # one-way destination in the same batch): a rejected batch takes no part in the bank's distribution and gets neither PEG nor refund
    # a request so small that its share of an oversubscribed bank rounds to nothing: it gets 0 PEG and its whole input back
    tiny = s.key("T1")
    s.burn(2, tiny, 10**8)
    for h in (L["ConvLimit"] + 1, L["ConvLimit"] + 3, L["V4"] + 1, L["V4"] + 3):
        s.convert(h, tiny, "pFCT", 1 + h % 3, "PEG", track=False)
    poor = s.key("P1")
    for h in (L["ConvLimit"] + 2, L["V4"] + 2, L["V4"] + 3):
        s.convert(h, poor, "pXBT", rnd.choice([4000, 20000]) * 10**8, "PEG", track=False)            # holds no pXBT at all
        s.convert(h, users[1], "pUSD", 10**17 + h, "PEG", track=False)                                 # far above its pUSD
        s.entry(h, users[2], [{"t": "pUSD", "amt": 10**8, "conv": "PEG"}, {"t": "pUSD", "amt": 10**8, "conv": "pFCT"}])
    s.tip(22)
    return s


def family(seed, tier):
    n = 5 if tier == "quick" else 20
    docs = [(lambda s: (s.s["name"], s.doc()))(chain(seed, k, tier)) for k in range(n)]
    g = scen.peg_window_chain(seed, name="c16-pegwin", dups=False)
    docs.append((g.s["name"], g.doc()))
    return docs


def main():
    return lcheck.run_check(PID, family, {"C16"},
        rule="legacy-era chains (bank-limited PEG conversions between the ConvLimit and 2.0 activations, both sides of the V4 fork) with 0..7 PEG requests per "
             "block from pFCT and pUSD, totals far below and far above the 5,000 PEG bank, exact ties for the largest request, requests spread over unrated "
             "blocks (per-height sets before V4, one pooled set after), a batch mixing a PEG request with another conversion, and PEG requests in batches rejected at execution (unfunded, overdrawn, one-way destination); TLC recomputes the requested "
             "amounts, floor shares, dust recipient (highest request, lowest txid among ties), refunds at spot rates, PEG / source-asset deltas and the bank row "
             "(amount, used, requested); non-trivial = every chain",
        corrupt=lcheck.corrupt_balance)


if __name__ == "__main__":
    vlib.main(main)

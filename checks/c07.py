#!/usr/bin/env python3
"""C07 Conversions execute later, at the next graded block's rates, exactly."""
import os, random, sys
sys.path.insert(0, os.path.dirname(os.path.abspath(__file__)))
import vlib, scen, lcheck
import c13

PID = "C07"
PAIRS = [("PEG", "pUSD"), ("PEG", "pXBT"), ("pUSD", "pXBT"), ("pXBT", "pUSD"), ("pUSD", "pEUR"), ("pEUR", "pXBT"), ("pXBT", "pEUR")]
ASSETS = ["PEG", "pUSD", "pXBT", "pEUR", "pFCT", "pDCR"]


def chain(name, seed, L, pip10_at, P, scale, probes=True):
    rnd = random.Random(seed)
    s = scen.Scn(name, sched=dict(scen.LIVE, PIP10=pip10_at), seed=seed, avg=P, assets=ASSETS)
    users = [s.key("A%d" % i) for i in range(1, 7)]
    h = scen.live_preamble(s, users, fund_peg=1200 * 10**8)
    base_rates = {"PEG": rnd.choice([1, 37, 5 * 10**6, 10**8, 10**8 * 10**5]), "pXBT": rnd.choice([3, 10**8 * 9000, 9 * 10**15]),
                  "pEUR": rnd.choice([99999999, 118000000, 10**8 + 1]), "pUSD": 10**8}
    if scale == "small":
        base_rates = {"PEG": 3, "pXBT": 7, "pEUR": 2, "pUSD": 5}
    def rates(i):
        r = dict(base_rates)
        # the assets move independently (pEUR against PEG, pXBT on its own phase), so that in many blocks one asset is above
        # its average while another is below it: both legs of min(spot, avg) / max(spot, avg) bind at once
        for k, ph in (("PEG", i * 7919 % 11 - 5), ("pXBT", (i * 104729 + 3) % 11 - 5), ("pEUR", 5 - i * 7919 % 11)):
            r[k] = max(1, r[k] + ph * max(1, r[k] // 50))
        return r
    r0 = rates(0)
    # seed every user with pUSD / pXBT / pEUR at the first two rated blocks
    for u in users:
        b = 1200 * 10**8
        s.entry(h, u, [{"t": "PEG", "amt": b // 4, "conv": "pUSD"}, {"t": "PEG", "amt": b // 4, "conv": "pXBT"}, {"t": "PEG", "amt": b // 8, "conv": "pEUR"}])
    s.grade(h, rates=rates(0)); h += 1
    s.grade(h, rates=rates(1)); h += 1
    for i in range(L):
        rated = rnd.random() < 0.72 or i == 0
        if rated:
            s.grade(h, rates=rates(i + 2))
        # probes in both pricing directions from two dedicated, well-funded users at every height: with PIP-10 the average binds the
        # destination (max) when prices fall and the source (min) when they rise, so a wrong averaging window always shows in some yield
        if probes:
            usd = min(10**15, max(1, 300 * 10**8 * r0["PEG"] // r0["pUSD"] // 100))       # about 1/100 of what the preamble conversions yielded
            eur = min(10**15, max(1, 150 * 10**8 * r0["PEG"] // r0["pEUR"] // 100))
            s.entry(h, users[-1], [{"t": "pUSD", "amt": usd + i, "conv": "pEUR"}, {"t": "pUSD", "amt": usd + 2 * i, "conv": "pXBT"}])
            s.entry(h, users[-2], [{"t": "pEUR", "amt": eur + i, "conv": "pUSD"}, {"t": "PEG", "amt": 10**8 + i, "conv": "pUSD"},
                                   {"t": "pEUR", "amt": eur + 2 * i, "conv": "pXBT"}, {"t": "PEG", "amt": 10**8 + 2 * i, "conv": "pEUR"}])
            xbt = min(10**15, max(1, 300 * 10**8 * r0["PEG"] // r0["pXBT"] // 100))
            s.entry(h, users[-3], [{"t": "pXBT", "amt": xbt + (i if xbt > 50 else 0), "conv": "pEUR"}, {"t": "pXBT", "amt": xbt, "conv": "pUSD"}])
        for u in (users[:-3] if probes else users):
            if rnd.random() < 0.6:
                src, dst = rnd.choice(PAIRS)
                amt = rnd.choice([1, 2, 3, 99999999, 10**8, 10**8 + 1, rnd.randint(1, 10**11), rnd.randint(1, 10**6)])
                s.convert(h, u, src, amt, dst, track=False)
        h += 1
    s.grade(h, rates=rates(L + 3)); h += 1
    s.grade(h, rates=rates(L + 4))
    s.tip(h)
    return s


def family(seed, tier):
    rnd = random.Random(seed * 48271 + 1)
    docs = []
    n = 5 if tier == "quick" else 24
    for k in range(n):
        L = rnd.randint(8, 12)
        s = chain("c07-%d" % k, seed * 1000 + k, L, pip10_at=[9, 9 + L // 2, 10**6, 11, 9][k % 5] if k < 5 else rnd.choice([10**6, 9, 9 + L // 2, 11]), P=rnd.choice([4, 4, 6, 8]),
                  scale="small" if k % 5 == 4 else "wide")
        docs.append((s.s["name"], s.doc()))
    for k in range(1 if tier == "quick" else 3):
        g = scen.snapshot_gap_chain(seed * 7 + k, name="c07-snapgap-%d" % k, pip10=(None if k % 2 == 0 else 150))
        docs.append((g.s["name"], g.doc()))
    # an asset whose average is unavailable for a while (zero-rated three heights in a row), rich lists requested after every block
    z = c13.live(seed + 17, 0, tier)
    d = z.doc(); d["name"] = "c07-zeroavg"
    docs.append((d["name"], d))
    return docs


def post(results):
    n = 0
    for r in results:
        for b in r.doc["blocks"]:
            n += sum(1 for e in b.get("entries", []) for t in e["txs"] if t.get("conv"))
    return {"conversions_submitted": n}


def main():
    return lcheck.run_check(PID, family, {"C07"},
        rule="conversions over 7 asset pairs submitted at every height of chains with seeded rated/unrated patterns, PIP-10 off / switching on mid-chain / on, "
             "AveragePeriod 4..8, spot prices drifting around the average, amounts 1 .. 1e11 and rates 1 .. 9e15 (products up to ~1e27, checked exactly with "
             "Big.tla); TLC checks for every conversion: executed in the first later rated block (never in its own), amount = floor(in*min(spot,avg)/max(spot,avg)) "
             "resp. floor(in*src/dst), recorded to_amount and balances; non-trivial = every submitted conversion",
        corrupt=lcheck.corrupt_balance, post=post)


if __name__ == "__main__":
    vlib.main(main)

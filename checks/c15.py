#!/usr/bin/env python3
"""C15 Scheduled issuance: developer rewards and one-time ledger adjustments."""
import os, random, sys
sys.path.insert(0, os.path.dirname(os.path.abspath(__file__)))
import vlib, scen, lcheck

PID = "C15"

# activation placements relative to the 144-block cadence (DESIGN.md S0..S5)
SCHEDS = [
    dict(DevRewards=20, SprSig=20, V202=30, OneWaySmall=30, V204=36, V204Burn=40),          # all off cadence, before the first payout
    dict(DevRewards=144, SprSig=144, V202=150, OneWaySmall=150, V204=160, V204Burn=163),    # dev activation exactly on the cadence
    dict(DevRewards=145, SprSig=145, V202=288, OneWaySmall=288, V204=289, V204Burn=290),    # just after; 2.0.2 on the cadence; mint/burn adjacent
    dict(DevRewards=143, SprSig=143, V202=144, OneWaySmall=144, V204=144, V204Burn=145),    # just before; 2.0.2 and mint on the cadence together
    dict(DevRewards=150, SprSig=150, V202=150, OneWaySmall=150, V204=200, V204Burn=288),    # DevRewards = V202; mint burn on the cadence
    dict(DevRewards=12, SprSig=12, V202=14, OneWaySmall=14, V204=16, V204Burn=18, PIP10=20),
]


def chain(seed, k, tier):
    rnd = random.Random(seed * 613 + k)
    sc = SCHEDS[k % len(SCHEDS)]
    sched = dict(scen.LIVE, **sc)
    prior = k % 2 == 0 or tier != "quick"         # special addresses hold funds before their adjustment
    s = scen.Scn("c15-%d" % k, sched=sched, seed=seed * 10 + k, assets=["PEG", "pUSD", "pXBT", "pEUR", "pDCR", "pNGN"])      # PEG / pNGN: first and last ticker
    users = [s.key("A1"), s.key("A2"), s.key("A3")]
    s.key("MINT")        # this network's mint address is a key pair of the scenario (gen.ApplySchedule)
    h = scen.live_preamble(s, users, fund_peg=1000 * 10**8)
    s.entry(h, "A1", [{"t": "PEG", "amt": 300 * 10**8, "conv": "pUSD"}, {"t": "PEG", "amt": 100 * 10**8, "conv": "pXBT"},
                      {"t": "PEG", "amt": 50 * 10**8, "conv": "pNGN"}])
    s.grade(h); h += 1
    s.grade(h); h += 1
    first = min(sc["DevRewards"], sc["V202"])
    if prior and h < first:
        # the special addresses can only obtain funds as payout addresses of mining records (nobody holds their keys)
        # or, for the burn address before 2.0.2 / mint / developer addresses, as transfer recipients
        b = s.grade(h)
        b["opr"]["payTo"] = ["OLDBURN", "BURN", "MINT", "DEV2"] + scen.MINERS[4:]
        for (t, v) in [("PEG", 5 * 10**8), ("pUSD", 7 * 10**8), ("pXBT", 1234), ("pNGN", 10**8)]:
            s.transfer(h, "A1", t, [("BURN", v + 1)], track=False)       # before 2.0.2 the (new) burn address is credited like any other
        s.transfer(h, "A1", "PEG", [("MINT", 3 * 10**8), ("DEV3", 10**8)], track=False)
        s.transfer(h, "A1", "pUSD", [("OLDBURN", 4242)], track=False)   # destroyed: the old burn address is the burn address before 2.0.2
        h += 1
    marks = sorted(set([sc["DevRewards"], sc["V202"], sc["V204"], sc["V204Burn"], 144, 288]))
    tip = max(m for m in marks) + 2
    if tier == "quick" and tip > 200 and k % 3 != 2:
        pass
    for m in marks:
        for hh in (m - 1, m, m + 1):
            if hh > h - 1 and hh not in s.blocks:
                s.grade(hh)
    # the old burn address can still be paid as a mining payout address after its zeroing: what it holds at 2.0.2 is NOT touched there
    if sc["V202"] - sc["DevRewards"] >= 4:
        hb = sc["DevRewards"] + 2
        if hb not in s.blocks:
            b2 = s.grade(hb)
            b2["opr"]["payTo"] = ["OLDBURN", "DEV2"] + scen.MINERS[2:]
    # funds sent to the special addresses between the adjustments
    mid = [hh for hh in sorted(s.blocks) if hh > h]
    for hh in rnd.sample(mid, min(3, len(mid))):
        s.transfer(hh, "A1", "PEG", [(rnd.choice(["BURN", "MINT", "OLDBURN", "DEV1"]), 10**6)], track=False)
    # the holder of the mint address spends from the 2.0.4 supply before the burn: all of one minted asset (so that the address holds
    # exactly 0 of an early entry of the supply table and something of later ones), all of another, or all but one unit
    if sc["V204Burn"] - sc["V204"] >= 2:
        hh = sc["V204"] + 1
        usd, xbt = 3184409 * 10**8, 2 * 10**8
        var = k % 3
        if var == 0:
            s.transfer(hh, "MINT", "pUSD", [("A2", usd)], track=False)
        elif var == 1:
            s.transfer(hh, "MINT", "pXBT", [("A2", xbt // 2), ("A3", xbt // 2)], track=False)
            s.transfer(hh, "MINT", "pUSD", [("A3", usd - 1)], track=False)
        else:
            s.transfer(hh, "MINT", "pUSD", [("A2", usd)], track=False)
            s.transfer(hh, "MINT", "pXBT", [("A2", xbt)], track=False)
            s.transfer(hh, "MINT", "pDCR", [("A2", 5)], track=False)
    s.tip(tip)
    return s


def family(seed, tier):
    n = 6 if tier == "quick" else 18
    return [(lambda s: (s.s["name"], s.doc()))(chain(seed, k, tier)) for k in range(n)]


def fault_pass(seed, tier):
    """The one-time adjustments happen exactly once for exactly their amounts even when a statement of their block fails once:
    every statement of the mint block and of the mint-burn block of one chain fails once (the block must be rolled back and applied
    again as a whole); the final ledger must equal the fault-free run's. The zeroing heights are left to C10 (open finding there)."""
    import json, shutil
    import c02
    work = vlib.scratch("c15f-")
    try:
        vh = vlib.go_build("vh", "vh")
        s = chain(seed, 0, tier)
        doc = s.doc()
        doc["name"] = "c15-fault"
        sc = doc["sched"]
        path = c02.crash_run(vh, doc, work, "c15-stmt", [sc["V204"], sc["V204Burn"]], 0, 0, span=2, mode="stmtfault")
        evs = [json.loads(l) for l in open(path)]
        if any(e["ev"] == "Infra" for e in evs):
            raise vlib.Infra("fault experiment infrastructure failure")
        exps = [e for e in evs if e["ev"] == "FaultExp"]
        bad = [e for e in exps if not (e.get("equal") and e.get("contOK", True))]
        if bad:
            keep = os.path.join(vlib.replay_dir(PID), "stmtfault-seed%d.ndjson" % seed)
            shutil.copyfile(path, keep)
            json.dump(doc, open(keep + ".scenario.json", "w"))
            sys.stdout.write("  after a failed statement (event %s of block %s, %s) the one-time adjustment is missing / partial: %s\n"
                             % (bad[0]["k"], bad[0]["h"], bad[0].get("site"), bad[0].get("diffTables")))
            vlib.violation(PID, keep)
        return len(exps), len(bad)
    finally:
        shutil.rmtree(work, ignore_errors=True)


def main():
    n, bad = fault_pass(vlib.seed(), vlib.tier())
    rc = check(n)
    return 1 if bad else rc


def check(nfault):
    return lcheck.run_check(PID, family, {"C15"}, extra_cov={"statement_fault_experiments": nfault},
        rule="configuration sweep over six placements of the developer-reward / 2.0.2 / mint / mint-burn activations relative to the 144-block cadence "
             "(on it, just before, just after, coinciding with each other), with and without prior balances on the old burn, burn, mint and developer "
             "addresses with funds sent to them between the adjustments, and with the mint address (a key pair of the scenario) spending all / part of single minted assets before the burn; TLC checks per block: developer payout iff h >= activation and h % 144 = 0 with "
             "the table shares (x144 from 2.0.2), each one-time adjustment exactly at its height for exactly the specified amounts and at no other height "
             "(any other delta on the special addresses is an issue); in addition every statement of the mint block and of the mint-burn block of one "
             "chain fails once and the resumed ledger must equal the fault-free one; non-trivial = every chain",
        corrupt=lcheck.corrupt_balance)


if __name__ == "__main__":
    vlib.main(main)

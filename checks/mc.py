"""Exhaustive TLC runs (small constants) of the specification, per property family."""
import re
import vlib

LEDGER_INV = {
    "C03": ["NoNegative", "SupplyOK"],
    "C04": ["SupplyOK"],
    "C05": ["NoUnauthorized"],
    "C06": ["AtMostOnce", "PendingIffHeld"],
    "C07": ["ConvTiming", "ValueOK"],
    "C12": ["ConvTiming"],
    "C13": ["AdmissionOK"],
    "C17": ["ExecutedIffRel", "PendingIffHeld"],
}

FAMILIES = {
    "ledger": {"module": "MC_Ledger", "quick": ["MC_Ledger_quick.cfg"], "thorough": ["MC_Ledger.cfg", "MC_Ledger_thorough.cfg"],
               "deadlock": False},
    "payouts": {"module": "MC_Payouts", "quick": ["MC_Payouts.cfg"], "thorough": ["MC_Payouts.cfg", "MC_Payouts_thorough.cfg"],
                "deadlock": False},
}

PAYOUT_INV = {
    "C14": ["StakeIsMin", "Cap", "ExactWhenOver", "FullWhenUnder", "FloorShare", "AbsentUnpaid", "DustToTop", "LateFundsEarnNothing"],
    "C15": ["DevTotal"],
    "C16": ["YieldLeqBank", "FullIfFits", "Proportional", "ExactBankWhenOver", "NeverMoreThanWanted", "RefundBound"],
}


def run_family(fam, tier, workers=16, timeout=7200):
    f = FAMILIES[fam]
    tot = {"states": 0, "transitions": 0, "configs": [], "module": f["module"]}
    for cfg in f[tier]:
        r = vlib.tlc(f["module"], cfg=cfg, workers=workers, timeout=timeout, deadlock=f.get("deadlock", True))
        if not r.ok:
            raise vlib.Infra("exhaustive model %s/%s failed: %s\n%s" % (f["module"], cfg, r.violation or r.error, r.out[-1500:]))
        tot["states"] += r.distinct
        tot["transitions"] += r.generated
        tot["configs"].append({"cfg": cfg, "distinct": r.distinct, "generated": r.generated, "depth": r.depth, "wall_s": round(r.wall, 1)})
    return tot


def run(pid, tier):
    if pid in LEDGER_INV or pid in ("C11", "C14", "C15", "C16"):
        tot = run_family("ledger", tier)
        tot["invariants_for_this_property"] = LEDGER_INV.get(pid, [])
        if pid in PAYOUT_INV:
            p = run_family("payouts", tier)
            tot["states"] += p["states"]
            tot["transitions"] += p["transitions"]
            tot["configs"] += p["configs"]
            tot["module"] = "MC_Ledger, MC_Payouts"
            tot["invariants_for_this_property"] += PAYOUT_INV[pid]
        return tot
    return None

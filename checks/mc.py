"""Exhaustive TLC runs (small constants) per property family. Filled in as the MC models grow."""
import vlib

def run(pid, tier):
    return None

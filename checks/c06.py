#!/usr/bin/env python3
"""C06 At-most-once execution of an entry (replay protection)."""
import copy, os, random, sys
sys.path.insert(0, os.path.dirname(os.path.abspath(__file__)))
import vlib, scen, lcheck, ledger

PID = "C06"


def family(seed, tier):
    """Pairs of chains: with duplicates, and with first occurrences only (two-replica DupInert)."""
    rnd = random.Random(seed * 999983 + 9)
    docs = []
    n = 4 if tier == "quick" else 14
    for k in range(n):
        s = scen.mixed_chain(seed * 20 + k, name="c06-%d" % k, blocks=9, users=5, unrated_p=0.35)
        first = copy.deepcopy(s.doc())
        first["name"] = "c06-%d-first" % k
        hs = [h for h in sorted(s.blocks) if h >= 8]
        ents = [(h, e) for h in hs for e in s.blocks[h].get("entries", []) if e.get("txs")]
        ndup = 0
        for (h, e) in ents:
            if rnd.random() < 0.6:
                for where in rnd.sample([h, h + 1, h + 2, h + 3, h + 5], rnd.randint(1, 3)):
                    if where <= s.s["tip"]:
                        s.dup(where, e["id"], minute=rnd.choice([1, 5, 9]) if where != h else e.get("minute", 1))
                        ndup += 1
        d = s.doc()
        d["name"] = "c06-%d-dups" % k
        docs += [(d["name"], d), (first["name"], first)]
    # bank-era chain: PEG requests held across unrated blocks that contain copies of them
    import copy as _c
    g = scen.peg_window_chain(seed, name="c06-pegwin-dups", dups=True)
    f = scen.peg_window_chain(seed, name="c06-pegwin-first", dups=False)
    docs += [(g.s["name"], g.doc()), (f.s["name"], f.doc())]
    r = reconsider_chain(seed)
    docs.append((r.s["name"], r.doc()))
    return docs


def reconsider_chain(seed, name="c06-reconsider"):
    """'A conversion placed in holding is considered for execution exactly once': conversions that are rejected when they come up
    (source not funded), whose author is funded afterwards, followed by every kind of block that is graded but records no rates
    (one OPR record short, OPR and SPR both one short, no records at all) before the next rated block. Live era and legacy era."""
    s = scen.Scn(name, sched=dict(scen.LIVE), seed=seed * 10 + 8, avg=4)
    us = [s.key("A%d" % i) for i in range(1, 5)]
    h = scen.live_preamble(s, us, fund_peg=600 * 10**8)
    s.convert(h, "A2", "PEG", 300 * 10**8, "pUSD")
    s.grade(h); h += 1
    s.grade(h); h += 1
    for rd, gap in enumerate(["few-opr", "few-both", "none", "few-opr"]):
        # A1 / A3 hold no pUSD: rejected at the next rated block
        s.convert(h, "A1", "pUSD", 10**8 + rd, "pXBT", track=False)
        s.convert(h, "A3", "pUSD", 2 * 10**8 + rd, "pXBT", track=False)
        s.grade(h); h += 1
        s.grade(h)                                   # considered here (rejected: no funds)
        s.transfer(h, "A2", "pUSD", [("A1", 5 * 10**8), ("A3", 5 * 10**8)])      # ... and funded right afterwards
        h += 1
        if gap == "few-opr":
            s.grade(h, n=24, spr=False, pay=False)
        elif gap == "few-both":
            b = s.grade(h, n=24, pay=False)
            if "spr" in b:
                b["spr"]["n"] = 24
        h += 1
        s.grade(h); h += 1                           # a rated block after the gap: nothing of the above may be looked at again
        # spend the funding again so that the next round starts unfunded
        s.transfer(h, "A1", "pUSD", [("A2", 5 * 10**8)], track=False)
        s.transfer(h, "A3", "pUSD", [("A2", 5 * 10**8)], track=False)
        s.grade(h); h += 1
    s.grade(h); s.tip(h)
    return s


def post(results):
    """DupInert: ledger of the chain with duplicates == ledger of the chain with first occurrences only."""
    by = {r.name: r for r in results}
    bad = 0
    for r in results:
        if r.name.endswith("-dups") and r.rc == 0:
            o = by.get(r.name[:-5] + "-first")
            if o and o.rc == 0:
                a, b = r.last.get("dump", {}), o.last.get("dump", {})
                diff = sorted(t for t in b if a.get(t) != b.get(t) and t not in ('pn_holding', 'pn_history_txbatch'))  # eblock keymr / block order are not ledger content
                if diff:
                    r.issues.append((r.lines, "C06", "ledger with duplicates differs from the ledger with first occurrences only in %s" % diff))
                    bad += 1
    ndups = sum(1 for r in results for b in r.doc["blocks"] for e in b.get("entries", []) if e.get("dupOf"))
    return {"duplicate_placements": ndups, "replica_pairs": len(results) // 2, "pairs_differing": bad}


def main():
    return lcheck.run_check(PID, family, {"C06"},
        rule="live-era chains in which entries (transfers, conversions, multi-transaction batches; executed, rejected, pending) are repeated in the same block, "
             "the next block, across unrated blocks, after execution and after rejection; every block is validated by TLC (an entry hash gets relation rows / "
             "a holding row / an execution at most once; a held batch is considered in exactly the window [last rated, h)), and the final ledger must equal the "
             "ledger of the same chain with first occurrences only; non-trivial = chain with at least one duplicate",
        corrupt=lcheck.corrupt_balance, post=post)


if __name__ == "__main__":
    vlib.main(main)

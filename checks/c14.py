#!/usr/bin/env python3
"""C14 Holder staking payouts: snapshot minimum, proportional, capped."""
import os, random, sys
sys.path.insert(0, os.path.dirname(os.path.abspath(__file__)))
import vlib, scen, lcheck

PID = "C14"


def chain(seed, k, tier):
    rnd = random.Random(seed * 541 + k)
    mode = ["below", "above", "ties-above", "zero-rate", "pre202", "ties"][k % 6]
    sched = dict(scen.LIVE, OneWaySmall=20)
    if mode == "pre202":
        sched.update(V202=300, OneWaySmall=300)
    # PEG price decides whether the total stake is below or above 4500 PEG x 144 = 648,000 USD
    peg_rate = {"below": 5 * 10**6, "ties": 5 * 10**6, "zero-rate": 5 * 10**6, "pre202": 5 * 10**6, "above": 10**8 * 2000, "ties-above": 10**8 * 2000}[mode]
    rates = {"PEG": peg_rate}
    s = scen.Scn("c14-%d-%s" % (k, mode), sched=sched, seed=seed * 10 + k, assets=["PEG", "pUSD", "pXBT", "pEUR", "pDCR"])
    users = [s.key("A%d" % i) for i in range(1, 9)]
    late = s.key("L1")
    h = 4
    s.grade(h, spr=False, rates=rates); h += 1
    s.grade(h, rates=rates); h += 1
    s.grade(h, rates=rates); h += 1
    for i, u in enumerate(users):
        s.grade(h, rates=rates)
        s.transfer(h, scen.MINERS[i], "PEG", [(u, 1000 * 10**8)])
    h += 1
    # first round of holdings (before snapshot 144)
    s.grade(h, rates=rates)
    for i, u in enumerate(users):
        amt = 300 * 10**8 if mode in ("ties", "ties-above") else rnd.randint(1, 400) * 10**8
        txs = [{"t": "PEG", "amt": amt, "conv": "pUSD"}]
        if mode == "ties-above":
            s.entry(h, u, txs)          # identical holdings: the largest stake is shared by several addresses while the payout is capped
            continue
        if i % 2 == 0:
            txs.append({"t": "PEG", "amt": (100 if mode in ("ties", "ties-above") else rnd.randint(1, 200)) * 10**8, "conv": "pXBT"})
        if i % 3 == 0:
            txs.append({"t": "PEG", "amt": 50 * 10**8, "conv": "pEUR"})
        if i % 4 == 0:
            txs.append({"t": "PEG", "amt": 20 * 10**8, "conv": "pDCR"})       # allowed before OneWaySmall only: see sched below
        s.entry(h, u, txs)
    h += 1
    s.grade(h, rates=rates); h += 1
    s.grade(143, rates=rates)
    s.grade(144, rates=rates)                 # snapshot 1
    # movements between the snapshots
    s.grade(150, rates=rates)
    s.transfer(150, users[0], "pUSD", [(users[1], rnd.randint(1, 10**9))], track=False)       # leaves early: min rule
    s.transfer(150, scen.MINERS[20], "PEG", [(late, 500 * 10**8)])
    s.entry(151, late, [{"t": "PEG", "amt": 400 * 10**8, "conv": "pUSD"}]) if False else None
    s.grade(151, rates=rates)
    s.convert(151, late, "PEG", 100 * 10**8, "pUSD", track=False)                              # arrives after snapshot 1: earns nothing at 288
    s.convert(151, users[2], "PEG", 10**8, "pXBT", track=False)
    s.grade(152, rates=rates)
    s.grade(200, rates=rates)
    s.transfer(200, users[3], "pXBT", [(users[4], 12345)], track=False)
    s.grade(287, rates=rates)
    # a conversion that executes AT the payout height: the snapshot is taken before any balance change of that block
    s.convert(287, users[1], "pUSD", 10 * 10**8, "pXBT", track=False)
    s.convert(287, users[6], "PEG", 10 * 10**8, "pUSD", track=False)
    if mode == "zero-rate":
        # pEUR (a low ticker index) is recorded as 0 at the payout height (OPR outside the 25% band of the SPR);
        # holders that own pEUR also own assets with a higher ticker index (pXBT, pDCR), which must still count
        s.grade(288, rates=dict(rates, pEUR=3 * 10**8), spr_rates=dict(rates, pEUR=10**8))
    elif k % 3 == 0:
        pass                                                                                   # snapshot height without rates
    else:
        s.grade(288, rates=rates)              # snapshot 2: payout
    s.transfer(288, users[5], "pUSD", [(users[6], 999)], track=False)                          # same block: after the snapshot
    s.grade(289, rates=rates)
    tip = 290
    if tier != "quick":
        s.grade(431, rates=rates); s.grade(432, rates=rates); s.grade(433, rates=rates)
        tip = 434
    s.tip(tip)
    return s


def all_assets_chain(seed, name="c14-allassets"):
    """Every ticker of the protocol is held by some staker across two snapshots, every asset at a different rate, total stake below
    the cap: each payout is the exact USD value of the holder's assets, so any confusion between two balance columns shows."""
    rnd = random.Random(seed * 271 + 9)
    assets = list(scen.ALL_TICKERS)
    rates = scen.distinct_rates(assets)
    s = scen.Scn(name, sched=dict(scen.LIVE, OneWaySmall=20), seed=seed * 10 + 7, assets=assets)
    users = [s.key("A%d" % i) for i in range(1, 9)]
    h = 4
    s.grade(h, spr=False, rates=rates); h += 1
    s.grade(h, rates=rates); h += 1
    s.grade(h, rates=rates); h += 1
    s.grade(h, rates=rates)
    for i, u in enumerate(users):
        s.transfer(h, scen.MINERS[i], "PEG", [(u, 1000 * 10**8)])
    h += 1
    s.grade(h, rates=rates)
    others = [t for t in assets if t != "PEG"]
    for i, u in enumerate(users):
        mine = [t for j, t in enumerate(others) if j % len(users) == i]
        s.entry(h, u, [{"t": "PEG", "amt": (5 + rnd.randint(0, 40)) * 10**8, "conv": t} for t in mine])
    h += 1
    s.grade(h, rates=rates)
    for hh in (143, 144, 145, 200, 287, 288, 289):
        s.grade(hh, rates=rates)
    # a movement between the snapshots for the minimum rule, in assets that sit next to each other in the balance table
    s.transfer(200, users[0], others[0], [(users[1], 1000)], track=False)
    s.transfer(200, users[5], others[5 + 16], [(users[6], 77)], track=False)
    s.tip(290)
    return s


def family(seed, tier):
    n = 5 if tier == "quick" else 15
    docs = [(lambda s: (s.s["name"], s.doc()))(chain(seed, k, tier)) for k in range(n)]
    g = scen.snapshot_gap_chain(seed, name="c14-snapgap")
    docs.append((g.s["name"], g.doc()))
    a = all_assets_chain(seed)
    # the database of this run predates the newer asset lists: its balance table is brought up to date by the daemon's own
    # migrations at start-up (the snapshot tables are created new); payouts may not depend on the history of the schema
    a.control(legacySchema=["pre-v4", "pre-v5"][seed % 2])
    docs.append((a.s["name"], a.doc()))
    if tier != "quick":
        b = all_assets_chain(seed + 1, name="c14-allassets-fresh")
        docs.append((b.s["name"], b.doc()))
    return docs


def main():
    return lcheck.run_check(PID, family, {"C14"},
        rule="chains crossing the snapshot heights 144 and 288 (432 in thorough) with seeded holdings of three non-PEG assets over 8 addresses, movements "
             "between the snapshots (funds leaving, funds arriving late, an address created after the first snapshot, a transfer in the snapshot block), exact "
             "ties, total stake far below and far above 4,500 PEG x 144 (PEG price decides), a zero-rate asset and a snapshot height without rates, before and "
             "after 2.0.2, and one chain in which every one of the 61 non-PEG tickers is held by some staker at a rate of its own, run on a database whose balance table predates the newer asset lists and is migrated at start-up; TLC recomputes stake_i from MIN(past, current), the floor shares, the dust and its admissible recipients, and compares PEG deltas "
             "and both snapshot tables; non-trivial = every chain (each has a paying snapshot or a deliberate no-pay case)",
        corrupt=lcheck.corrupt_balance)


if __name__ == "__main__":
    vlib.main(main)

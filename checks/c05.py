#!/usr/bin/env python3
"""C05 Spend authorisation: only the key holder can debit an address."""
import os, random, sys
sys.path.insert(0, os.path.dirname(os.path.abspath(__file__)))
import vlib, scen, lcheck
import c15

PID = "C05"
FRESH = ["badsig", "wrongkey", "missingsig", "nosig", "noext", "emptyext", "saltonlyext", "extrasig", "wrongchain", "saltearly", "saltlate", "rcdswap", "content"]
EDGE_OK = ["saltedge-", "saltedge+"]
# approximate bit lengths of the parts of a one-transaction entry (the harness reduces modulo the real length)
BITS = {"content": 1700, "ext0": 80, "ext1": {"ed": 264, "rcde": 520}, "ext2": {"ed": 512, "rcde": 512}}  # rcde ext2: last byte excluded for fresh entries


def flips(rnd, key, n=None, every=False):
    out = []
    for part in ("content", "ext0", "ext1", "ext2"):
        nb = BITS[part] if isinstance(BITS[part], int) else BITS[part][key]
        rng = range(nb) if every else [rnd.randrange(nb) for _ in range(n)]
        out += ["flip:%s:%d" % (part, b) for b in rng]
    return out


def family(seed, tier):
    rnd = random.Random(seed * 2654435761 % 2**32)
    docs = []
    nscn = 2 if tier == "quick" else 6
    for k in range(nscn):
        sched = dict(scen.LIVE, RCDe=rnd.choice([9, 10, 11]))
        s = scen.Scn("c05-%d" % k, sched=sched, seed=seed * 10 + k)
        victims = {"ed": s.key("V1", "ed"), "rcde": s.key("W1", "rcde")}
        thief = s.key("T1")
        h = scen.live_preamble(s, list(victims.values()) + [thief], fund_peg=1200 * 10**8)
        # conversions by the ed victim so that both transfers and conversions can be attacked
        s.convert(h, "V1", "PEG", 100 * 10**8, "pUSD")
        s.grade(h); h += 1
        s.grade(h); h += 1
        act = sched["RCDe"]
        # RCD-e before its activation: valid signature, key type not yet accepted (height <= activation)
        while h <= act:
            s.grade(h)
            s.transfer(h, "W1", "PEG", [(thief, 10**8)], track=False, id="early-rcde-%d" % h)
            s.transfer(h, "V1", "PEG", [(thief, 1000)])          # a legitimate one in between
            h += 1
        # originals (legitimate, executed) that third parties then copy and alter
        s.grade(h)
        s.transfer(h, "V1", "PEG", [(thief, 10**8)], id="orig-ed")
        s.transfer(h, "W1", "PEG", [(thief, 10**8)], id="orig-rcde")
        s.convert(h, "V1", "pUSD", 10**8, "pXBT", id="orig-conv")
        h += 1
        s.grade(h); h += 1
        muts = []
        for key, v in victims.items():
            for m in FRESH + EDGE_OK:
                muts.append(("fresh", key, v, m))
            if tier == "quick":
                fl = flips(rnd, key, n=6)
            else:
                fl = flips(rnd, key, every=(k < 2), n=60)
            muts += [("fresh", key, v, m) for m in fl]
            orig = "orig-ed" if key == "ed" else "orig-rcde"
            muts += [("copy", key, orig, m) for m in (flips(rnd, key, n=4) if tier == "quick" else flips(rnd, key, n=40))]
        muts.append(("copy", "rcde", "orig-rcde", "recbyte"))
        # third-party copies whose content is the same JSON value written with other bytes (insignificant whitespace): new entry hash,
        # old signature -- "a valid signature over exactly that content"
        for orig in ("orig-ed", "orig-rcde", "orig-conv"):
            for v in (("lead", "trail", "colon", "comma", "inner", "tab") if (tier != "quick" or orig == "orig-ed") else ("colon", "trail")):
                muts.append(("copy", "ed" if orig != "orig-rcde" else "rcde", orig, "ws:" + v))
        muts += [("copy", "ed", "orig-conv", m) for m in flips(rnd, "ed", n=3)]
        rnd.shuffle(muts)
        per_block = 60 if tier == "quick" else 400
        i = 0
        while i < len(muts):
            s.grade(h)
            for (kind, key, who, m) in muts[i:i + per_block]:
                if kind == "fresh":
                    if rnd.random() < 0.3:
                        s.convert(h, who, "PEG", 12345, "pUSD", track=False, mut=m)
                    else:
                        s.transfer(h, who, "PEG", [(thief, 10**8)], track=False, mut=m)
                else:
                    s.dup(h, who, mut=m)
            s.transfer(h, "T1", "PEG", [("V1", 5)])
            i += per_block
            h += 1
        s.grade(h); h += 1
        s.grade(h)
        s.tip(h)
        docs.append((s.s["name"], s.doc()))
    # the only debits nobody signs are the protocol's scheduled adjustments: exactly those addresses, at exactly those heights
    z = c15.chain(seed + 11, 0, tier)
    z.s["name"] = "c05-scheduled"
    docs.append((z.s["name"], z.doc()))
    return docs


def main():
    return lcheck.run_check(PID, family, {"C05"},
        rule="for ed25519 and RCD-e signers: every mutation class (bad/missing/extra/swapped signature, wrong key, wrong chain, salt just outside "
             "+-12h and exactly on the edge, content changed after signing, RCD-e before its activation height) as freshly built entries, single-bit "
             "flips of content and of each external id (quick: seeded sample; thorough: EVERY bit of two sample entries), and third-party copies of "
             "executed entries with altered bytes (incl. the RCD-e recovery byte, and the same JSON rewritten with insignificant whitespace); transfers and conversions; all placed on a real chain; TLC requires "
             "every entry that is not Authorized(e,h) to leave no trace in balances, history, holding or relations; non-trivial = every mutated entry",
        corrupt=lcheck.corrupt_balance,
        post=lambda results: {"mutated_entries": sum(1 for r in results for b in r.doc["blocks"] for e in b.get("entries", []) if e.get("mut"))})


if __name__ == "__main__":
    vlib.main(main)

"""Generic driver for a ledger-family check: MC run + scenario family + trace validation."""
import os, shutil, sys, time
import vlib, ledger, mc, conf


def run_check(pid, family, tags, rule, corrupt=None, findings=None, crash_owner=False, assumptions=(), extra_cov=None,
              post=None, jvms=4):
    """family(seed, tier) -> list of (name, doc). findings(result, issue) -> finding or None."""
    t0 = time.time()
    tier, seed = vlib.tier(), vlib.seed()
    work = vlib.scratch(pid.lower() + "-")
    try:
        mcres = mc.run(pid, tier)
        docs = family(seed, tier)
        results = ledger.run_all(docs, work)
        stats = ledger.validate(results, work, jvms=jvms)
        ok = [r for r in results if r.rc == 0]
        if corrupt and ok:
            ledger.self_test(ok[0], work, corrupt)
        elif not ok and not crash_owner:
            raise vlib.Infra("no scenario ran to completion: %s" % results[0].err[-400:])
        if findings is None:
            findings = ledger.classify_known(pid, results, tags, work)
        extra = dict(extra_cov or {})
        if post:
            extra.update(post(results) or {})
        nconf = conf.check(pid)          # defaults the daemon is built with vs. Config.tla (the scenario runs set their own schedule)
        extra["configuration_differences"] = nconf
        nk = 0
        if pid in ("C07", "C13"):        # the real conversion kernel vs. Ledger.Convert on a grid of arguments, and the exhaustive kernel model
            import convk                 # (C13 owns only the refusal half: zero rate / unavailable average)
            nk, kcov = convk.check(pid, tier, refusal_only=(pid == "C13"))
            extra["conversion_kernel"] = {k: kcov[k] for k in ("mc_configs", "kernel_calls_compared", "kernel_calls_compared_64bit", "of_them_refused_or_overflowing", "mismatches", "self_test")}
        if pid == "C16":                 # the real PEG bank kernel (Payouts, Refund) vs. LedgerBlock.PegYields / Refund on all small request vectors
            import bankk
            nk, bcov = bankk.check(pid)
            extra["bank_kernel"] = {k: bcov[k] for k in ("kernel_calls_compared", "mismatches", "self_test")}
        rc = ledger.finish(pid, results, stats, tags, t0, mc=mcres, rule=rule,
                             samples=[ledger.sample_of(r) for r in results[:2]],
                             assumptions=list(assumptions) or ["fake factomd serves exactly the generated chain", "TLC and the Big.tla arithmetic",
                                                                "pegnet OPR grader module as grading oracle"],
                             findings_matcher=findings, crash_owner=crash_owner, extra_cov=extra)
        return 1 if (nconf or nk) else rc
    finally:
        shutil.rmtree(work, ignore_errors=True)


def corrupt_balance(ev):
    """Default binding self-test: change one observed balance."""
    for e in ev:
        if e["ev"] == "Block" and e["in"]["entries"]:
            a = e["in"]["entries"][0]["txs"][0]["a"] if e["in"]["entries"][0]["txs"] else None
            if a and a in e["obs"]["bal"]:
                e["obs"]["bal"][a]["PEG"] = [1] + e["obs"]["bal"][a]["PEG"]
                return
    for e in ev:
        if e["ev"] == "Block":
            k = sorted(e["obs"]["bal"])[0]
            e["obs"]["bal"][k]["PEG"] = [1] + e["obs"]["bal"][k]["PEG"]
            return


def upstream_fault_pass(pid, doc, tables, what, stride=3, mode="reqfault", blocks=None):
    """Every stride-th upstream request (or statement) of every block of one chain fails once; afterwards the named tables must equal the
    fault-free run's. Returns (experiments, failing). Prints a VIOLATION line for pid when an experiment fails."""
    import json, shutil, sys
    import c02
    work = vlib.scratch(pid.lower() + "f-")
    try:
        vh = vlib.go_build("vh", "vh")
        path = c02.crash_run(vh, doc, work, pid.lower() + "-fault", blocks or [], stride, vlib.seed() % max(1, stride), span=3, mode=mode)
        evs = [json.loads(l) for l in open(path)]
        if any(e["ev"] == "Infra" for e in evs):
            raise vlib.Infra("fault experiment infrastructure failure")
        exps = [e for e in evs if e["ev"] == "FaultExp"]
        # (the second request of the two zeroing heights is NullifyBurnAddress' own dblock fetch: its dropped error is C10's open finding)
        known_site = lambda e: mode == "reqfault" and e["k"] == 1 and e["h"] in (doc["sched"].get("DevRewards"), doc["sched"].get("V202"))
        bad = [e for e in exps if not (e.get("equal") and e.get("contOK", True)) and not known_site(e)
               and (not tables or set(e.get("diffTables") or []) & set(tables))]
        if bad:
            keep = os.path.join(vlib.replay_dir(pid), "%s-seed%d.ndjson" % (mode, vlib.seed()))
            shutil.copyfile(path, keep)
            json.dump(doc, open(keep + ".scenario.json", "w"))
            sys.stdout.write("  after a failed %s (%s of block %s) %s: %s\n" % ("download" if mode == "reqfault" else "statement", bad[0]["k"], bad[0]["h"], what, bad[0].get("diffTables")))
            vlib.violation(pid, keep)
        return len(exps), len(bad)
    finally:
        shutil.rmtree(work, ignore_errors=True)

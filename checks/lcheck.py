"""Generic driver for a ledger-family check: MC run + scenario family + trace validation."""
import os, shutil, sys, time
import vlib, ledger, mc, conf


def run_check(pid, family, tags, rule, corrupt=None, findings=None, crash_owner=False, assumptions=(), extra_cov=None,
              post=None, jvms=4):
    """family(seed, tier) -> list of (name, doc). findings(result, issue) -> finding or None."""
    t0 = time.time()
    tier, seed = vlib.tier(), vlib.seed()
    work = vlib.scratch(pid.lower() + "-")
    try:
        mcres = mc.run(pid, tier)
        docs = family(seed, tier)
        results = ledger.run_all(docs, work)
        stats = ledger.validate(results, work, jvms=jvms)
        ok = [r for r in results if r.rc == 0]
        if corrupt and ok:
            ledger.self_test(ok[0], work, corrupt)
        elif not ok and not crash_owner:
            raise vlib.Infra("no scenario ran to completion: %s" % results[0].err[-400:])
        if findings is None:
            findings = ledger.classify_known(pid, results, tags, work)
        extra = dict(extra_cov or {})
        if post:
            extra.update(post(results) or {})
        nconf = conf.check(pid)          # defaults the daemon is built with vs. Config.tla (the scenario runs set their own schedule)
        extra["configuration_differences"] = nconf
        rc = ledger.finish(pid, results, stats, tags, t0, mc=mcres, rule=rule,
                             samples=[ledger.sample_of(r) for r in results[:2]],
                             assumptions=list(assumptions) or ["fake factomd serves exactly the generated chain", "TLC and the Big.tla arithmetic",
                                                                "pegnet OPR grader module as grading oracle"],
                             findings_matcher=findings, crash_owner=crash_owner, extra_cov=extra)
        return 1 if nconf else rc
    finally:
        shutil.rmtree(work, ignore_errors=True)


def corrupt_balance(ev):
    """Default binding self-test: change one observed balance."""
    for e in ev:
        if e["ev"] == "Block" and e["in"]["entries"]:
            a = e["in"]["entries"][0]["txs"][0]["a"] if e["in"]["entries"][0]["txs"] else None
            if a and a in e["obs"]["bal"]:
                e["obs"]["bal"][a]["PEG"] = [1] + e["obs"]["bal"][a]["PEG"]
                return
    for e in ev:
        if e["ev"] == "Block":
            k = sorted(e["obs"]["bal"])[0]
            e["obs"]["bal"][k]["PEG"] = [1] + e["obs"]["bal"][k]["PEG"]
            return

#!/usr/bin/env python3
"""Independent confirmation of stored seeded changes, and the catch matrix.

  python3 checks/seedconfirm.py confirm [dir-substring ...]   build + repository tests + demonstration with / without the change
  python3 checks/seedconfirm.py matrix  [dir-substring ...]   run each seed's own check (quick) against it, write seeded/MATRIX.json

Everything happens in scratch worktrees of /repo's HEAD under /tmp (removed afterwards); /repo itself is not touched."""
import json, os, re, shutil, subprocess, sys, tempfile, time, concurrent.futures as cf

VERIF = os.path.dirname(os.path.dirname(os.path.abspath(__file__)))
SEEDED = os.path.join(VERIF, "seeded")
ENV = dict(os.environ, GOFLAGS="-mod=mod", GOPROXY="off", GOSUMDB="off", GOTOOLCHAIN="local", LXRBITSIZE="8")
import threading
TESTLOCK = threading.Lock()                   # node/pegnet's tests share the fixed path /tmp/pegnet-tmp.db: never run two suites at once
FLAKY = "TestConversions_Convert_Random"      # unseeded random test of the pinned suite: fails now and then on the unchanged tree too


def sh(cmd, cwd=None, t=1800):
    return subprocess.run(cmd, cwd=cwd, env=ENV, stdout=subprocess.PIPE, stderr=subprocess.STDOUT, text=True, timeout=t)


def seeds(filters):
    out = []
    for d in sorted(os.listdir(SEEDED)):
        mp = os.path.join(SEEDED, d, "meta.json")
        if os.path.exists(mp) and (not filters or any(f in d for f in filters)):
            if json.load(open(mp)).get("obsolete") and not filters:
                continue          # neutralised by a later repair of /repo (see meta.json)
            out.append(d)
    return out


def demo_plan(base, m):
    files = dict(m.get("demo_files") or {})
    cmdline = m.get("demo_cmd", "")
    mm = re.search(r"-run\s+'?([\w|_^$.*()]+)'?", cmdline)
    pk = re.findall(r"(\./[\w/]+/?)(?:\s|$)", cmdline)
    pkg = pk[-1] if pk else "./node/"
    if not files:
        for f in os.listdir(os.path.join(base, "demo")):
            if f.endswith(".go"):
                files[f] = os.path.join(pkg.strip("./").rstrip("/"), f)
    if files:
        pkg = "./" + os.path.dirname(list(files.values())[0]) + "/"
    return files, ["go", "test", "-vet=off", "-count=1", "-timeout", "20m", "-run", mm.group(1) if mm else "Demo", pkg]


def confirm(d):
    base = os.path.join(SEEDED, d)
    mp = os.path.join(base, "meta.json")
    m = json.load(open(mp))
    wt = tempfile.mkdtemp(prefix="confirm-wt-")
    os.rmdir(wt)
    try:
        sh(["git", "-C", "/repo", "worktree", "add", "--detach", wt])
        r = sh(["git", "-C", wt, "apply", os.path.join(base, "patch.diff")])
        if r.returncode:
            return d, {"error": "patch does not apply: " + r.stdout[-200:]}
        b = sh(["go", "build", "./..."], cwd=wt)
        ok_tests = False
        for attempt in range(3):          # the pinned suite has one unseeded random test
            with TESTLOCK:
                t = sh(["go", "test", "-vet=off", "-count=1", "./..."], cwd=wt)
            fails = [l for l in t.stdout.splitlines() if l.startswith("--- FAIL")]
            if t.returncode == 0:
                ok_tests = True
                break
            if not all(FLAKY in f for f in fails):
                break
        files, run = demo_plan(base, m)
        for f, dst in files.items():
            os.makedirs(os.path.dirname(os.path.join(wt, dst)), exist_ok=True)
            shutil.copy(os.path.join(base, "demo", f), os.path.join(wt, dst))
        w = sh(run, cwd=wt)
        sh(["git", "-C", wt, "apply", "-R", os.path.join(base, "patch.diff")])
        wo = sh(run, cwd=wt)
        res = dict(build=b.returncode == 0, repo_tests=ok_tests, demo_with_change_fails=w.returncode != 0,
                   demo_without_change_passes=wo.returncode == 0)
        if not ok_tests:
            res["repo_test_failures"] = fails[:5]
        if wo.returncode != 0:
            res["without_tail"] = wo.stdout[-400:]
        m.setdefault("verification", {}).update(res)
        m["verification"]["confirmed_by"] = ("checks/seedconfirm.py confirm: scratch worktree of /repo HEAD, go build ./..., go test ./... (demo excluded), "
                                            "demonstration with the patch, demonstration with the patch reverted")
        json.dump(m, open(mp, "w"), indent=1)
        return d, res
    finally:
        sh(["git", "-C", "/repo", "worktree", "remove", "--force", wt])
        shutil.rmtree(wt, ignore_errors=True)


def matrix_one(d, tier="quick"):
    base = os.path.join(SEEDED, d)
    m = json.load(open(os.path.join(base, "meta.json")))
    pid = m["property"]
    t0 = time.time()
    r = sh([sys.executable, os.path.join(VERIF, "checks", "seedtest.py"), os.path.join(base, "patch.diff"), pid, "--no-tests", "--tier", tier], cwd=VERIF, t=7200)
    line = next((l for l in r.stdout.splitlines() if l.startswith(pid + ":")), "")
    rc = re.search(r"rc=(\d+)", line)
    return d, {"property": pid, "check": pid, "rc": int(rc.group(1)) if rc else None, "caught": bool(rc and rc.group(1) == "1" and "VIOLATION" in line),
               "wall_s": round(time.time() - t0), "line": line[:200]}


def main():
    mode = sys.argv[1] if len(sys.argv) > 1 else "confirm"
    ds = seeds(sys.argv[2:])
    par = 3
    if mode == "confirm":
        bad = 0
        with cf.ThreadPoolExecutor(max_workers=par) as ex:
            for d, res in ex.map(confirm, ds):
                good = res.get("build") and res.get("repo_tests") and res.get("demo_with_change_fails") and res.get("demo_without_change_passes")
                bad += 0 if good else 1
                print(("ok   " if good else "BAD  ") + d, {k: v for k, v in res.items() if k != "without_tail"}, flush=True)
        return 1 if bad else 0
    out = {}
    mp = os.path.join(SEEDED, "MATRIX.json")
    if os.path.exists(mp) and sys.argv[2:]:
        out = json.load(open(mp))
    with cf.ThreadPoolExecutor(max_workers=par) as ex:
        for d, res in ex.map(matrix_one, ds):
            out[d] = res
            print(("caught " if res["caught"] else "MISSED ") + d, res["line"][:120], flush=True)
            json.dump(out, open(mp, "w"), indent=1, sort_keys=True)
    return 0 if all(v["caught"] for v in out.values()) else 1


if __name__ == "__main__":
    sys.exit(main())

#!/usr/bin/env python3
"""C01 Deterministic replay: same chain, same ledger (independent daemon processes)."""
import copy, json, os, random, shutil, sys, time
sys.path.insert(0, os.path.dirname(os.path.abspath(__file__)))
import vlib, ledger, scen
import c07, c14, c16

PID = "C01"


def tie_chain(seed, k):
    """Staking payout above the cap with exact ties among the largest stakes (dust recipient / payout index)."""
    rnd = random.Random(seed * 17 + k)
    rates = {"PEG": 10**8 * 2000}
    s = scen.Scn("c01-ties-%d" % k, seed=seed * 10 + k, assets=["PEG", "pUSD", "pXBT", "pEUR", "pDCR"])
    users = [s.key("A%d" % i) for i in range(1, 9)]
    h = 4
    s.grade(h, spr=False, rates=rates); h += 1
    s.grade(h, rates=rates); h += 1
    s.grade(h, rates=rates); h += 1
    s.grade(h, rates=rates)
    for i, u in enumerate(users):
        s.transfer(h, scen.MINERS[i], "PEG", [(u, 1000 * 10**8)])
    h += 1
    s.grade(h, rates=rates)
    for i, u in enumerate(users):
        amt = 300 * 10**8 if i < 5 else (100 + i) * 10**8       # five equal largest stakes
        s.convert(h, u, "PEG", amt, "pUSD", track=False)
    h += 1
    s.grade(h, rates=rates)
    for hh in (143, 144, 145, 287, 288, 289):
        s.grade(hh, rates=rates)
    s.tip(290)
    return s


def mc(tier):
    tot = {"states": 0, "transitions": 0, "configs": []}
    for cfg in (["MC_Determinism.cfg"] if tier == "quick" else ["MC_Determinism.cfg", "MC_Determinism_thorough.cfg"]):
        r = vlib.tlc("MC_Determinism", cfg=cfg, workers=8, timeout=1200, deadlock=False)
        if not r.ok:
            raise vlib.Infra("MC_Determinism %s: %s" % (cfg, r.violation or r.error))
        tot["states"] += r.distinct; tot["transitions"] += r.generated
        tot["configs"].append({"cfg": cfg, "distinct": r.distinct})
    r = vlib.tlc("MC_Determinism", cfg="MC_Determinism_dev.cfg", workers=4, timeout=300, deadlock=False)
    if r.violation != "Agree":
        raise vlib.Infra("vacuity guard: unordered ties not caught by MC_Determinism")
    return tot


def main():
    t0 = time.time()
    tier, seed = vlib.tier(), vlib.seed()
    work = vlib.scratch("c01-")
    try:
        mcres = mc(tier)
        K = 4 if tier == "quick" else 12
        chains = [tie_chain(seed, 0).doc(), c16.chain(seed, 2, tier).doc(), scen.rich_chain(seed, long=False).doc(),
                  scen.mixed_chain(seed + 9, name="c01-mixed", blocks=8, pip10=11).doc(),
                  c07.chain("c01-avg", seed * 31 + 5, 11, 9, 4, "wide").doc(),
                  c14.all_assets_chain(seed + 4, name="c01-allassets").doc()]
        if tier != "quick":
            chains += [tie_chain(seed, 1).doc(), c14.chain(seed, 2, tier).doc(), scen.legacy_chain(seed, name="c01-legacy", tip=30).doc()]
        docs, meta = [], {}
        for d in chains:
            for r in range(K):
                x = copy.deepcopy(d)
                x["name"] = "%s-r%d" % (d["name"], r)
                if d["name"] == "c01-allassets" and r in (1, 2):
                    # ... nor on how old the database file is: its balance table predates the newer asset lists and is migrated at start-up
                    x["control"] = dict(x.get("control") or {}, legacySchema=["pre-v5", "pre-v4"][r - 1])
                if r % 2 == 1:
                    # a different process history: the ledger may not depend on when the computing process was started
                    x["control"] = dict(x.get("control") or {}, restarts=[h for h in range(5, x["tip"]) if (h + r // 2) % 3 == 0][:40])
                docs.append((x["name"], x))
                meta[x["name"]] = (d["name"], r)
        vh = vlib.go_build("vh", "vh")
        # independent processes, different GOMAXPROCS
        import concurrent.futures as cf
        def one(nd):
            n, d = nd
            gmp = ["1", "2", "16", "4"][meta[n][1] % 4]
            return ledger.run_one(vh, d, work, n, dump=False, env={"GOMAXPROCS": gmp})
        with cf.ThreadPoolExecutor(max_workers=vlib.NCPU) as ex:
            results = list(ex.map(one, docs))
        # a replica that cannot replay its chain: if every replica of that chain fails the same way there is nothing to compare (no
        # verdict); if some replicas get through and others do not, the outcome depends on the process - that is the property
        failed_chains = {}
        for r in results:
            if r.rc != 0:
                failed_chains.setdefault(meta[r.name][0], []).append(r)
        split, dropped = [], []
        for chain, frs in failed_chains.items():
            total = sum(1 for n in meta if meta[n][0] == chain)
            if len(frs) == total and len({(fr.kind, (fr.last or {}).get("h")) for fr in frs}) == 1:
                dropped.append("every replica of %s failed (%s): %s" % (chain, frs[0].kind, frs[0].err[-200:]))
                continue
            split.append((chain, frs))
        results = [r for r in results if r.rc == 0]
        # one replica per chain is also validated against the ledger specification
        firsts = [r for r in results if meta[r.name][1] == 0]
        stats = ledger.validate(firsts, work)
        by = {}
        for r in results:
            by.setdefault(meta[r.name][0], []).append(r)
        viol, known = [], {}
        open_f = {f["id"]: f for f in vlib.open_findings(PID)}
        for chain, rs in by.items():
            ref = rs[0].last.get("dump", {})
            for r in rs[1:]:
                d = r.last.get("dump", {})
                diff = sorted(t for t in ref if d.get(t) != ref[t])
                if diff:
                    viol.append((chain, r, diff))
        for (chain, frs) in split:
            base = os.path.join(vlib.replay_dir(PID), "%s-seed%d" % (chain, seed))
            json.dump(frs[0].doc, open(base + ".scenario.json", "w"))
            open(base + ".why.txt", "w").write("replicas of %s do not behave alike: %s failed (%s)\n" % (chain, [fr.name for fr in frs], frs[0].kind))
            sys.stdout.write("  replicas of %s do not behave alike: %d of them failed (%s)\n" % (chain, len(frs), frs[0].kind))
            vlib.violation(PID, base + ".scenario.json")
            viol.append((chain, frs[0], ["(replica failed)"]))
        seen = set(c for (c, _) in split)
        for (chain, r, diff) in viol:
            if chain in seen:
                continue
            seen.add(chain)
            base = os.path.join(vlib.replay_dir(PID), "%s-seed%d" % (chain, seed))
            json.dump(r.doc, open(base + ".scenario.json", "w"))
            open(base + ".why.txt", "w").write("replicas of %s disagree in tables %s\n" % (chain, diff))
            sys.stdout.write("  replicas of %s disagree in %s\n" % (chain, diff))
            vlib.violation(PID, base + ".scenario.json")
        vlib.write_evidence(PID, "model_checking", {
            "states": mcres["states"], "transitions": mcres["transitions"], "traces_validated_against_impl": stats["traces"],
            "evaluations": len(results), "distinct_nontrivial": len(by),
            "rule": "each chain (staking payout above the cap with five exactly equal largest stakes; legacy bank with tied PEG requests; the structurally rich "
                    "chain; random traffic with PIP-10; conversions around unrated blocks with PIP-10) is replayed by K independent daemon processes (fresh hash seeds, "
                    "GOMAXPROCS 1/2/4/16; every second one is stopped and started again at every third height, so the process that computed a block differs); the canonical dumps of "
                    "all ledger tables (row ids and pn_sync_version.unix_timestamp excluded) must be identical; K=4 quick / 12 thorough, so a two-way order "
                    "dependence is missed with probability 2^-(K-1) per chain. MC_Determinism exhausts all stake vectors with independent tie orders.",
            "samples": [{"chain": c, "replicas": len(rs), "tables": sorted(rs[0].last.get("dump", {}))[:5]} for c, rs in list(by.items())[:3]],
            "replica_sets_disagreeing": len(seen), "mc": mcres,
        }, time.time() - t0, violations=len(seen), assumptions=["replicas run on the same machine and build"])
        if dropped and not viol:
            raise vlib.Infra("; ".join(dropped)[:600] + " - the other chains agree: no verdict")
        return 1 if viol else 0
    finally:
        shutil.rmtree(work, ignore_errors=True)


if __name__ == "__main__":
    vlib.main(main)

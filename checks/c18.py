#!/usr/bin/env python3
"""C18 API isolation: reads cannot disturb sync and see only committed blocks."""
import json, os, random, re, shutil, sys, time
sys.path.insert(0, os.path.dirname(os.path.abspath(__file__)))
import vlib, scen
import c09, c13

PID = "C18"


def mc(tier):
    tot = {"states": 0, "transitions": 0, "configs": []}
    for cfg in (["MC_Api_fixed.cfg"] if tier == "quick" else ["MC_Api_fixed.cfg", "MC_Api_thorough.cfg"]):
        r = vlib.tlc("Api", cfg=cfg, workers=16, timeout=2400, deadlock=False)
        if not r.ok:
            raise vlib.Infra("Api.tla %s: %s" % (cfg, r.violation or r.error))
        tot["states"] += r.distinct; tot["transitions"] += r.generated
        tot["configs"].append({"cfg": cfg, "distinct": r.distinct, "generated": r.generated})
    for cfg, inv in (("MC_Api_found.cfg", ("RespCommitted",)), ("MC_Api_unlocked.cfg", ("NoTornCache",)), ("MC_Api_failpub.cfg", ("InOrder", "RespCommitted")),
                     ("MC_Api_failread.cfg", ("NoTornCache", "LedgerUnaffected"))):
        r = vlib.tlc("Api", cfg=cfg, workers=4, timeout=600, deadlock=False)
        if r.violation not in inv:
            raise vlib.Infra("vacuity guard: %s should violate %s, got %r" % (cfg, inv, r.violation))
    tot["deviation_counterexamples"] = 4
    return tot


def validate(path):
    r = vlib.tlc("Trace_Api", cfg="Trace_Api.cfg", workers=1, files=[("trace.ndjson", path)], timeout=300)
    n = sum(1 for _ in open(path))
    done = re.search(r'<<"DONE", (\d+), (\d+)>>', r.out)
    if r.rc != 0 or not done or int(done.group(1)) != n:
        raise vlib.Infra("Trace_Api failed: %s" % r.out[-800:])
    out = []
    for m in re.finditer(r'^"ISSUE (.*)"\s*$', r.out, re.M):
        a = json.loads(json.loads('"' + m.group(1) + '"'))
        out.append((a[0], a[1], a[2]))
    return r, out


def main():
    t0 = time.time()
    tier, seed = vlib.tier(), vlib.seed()
    work = vlib.scratch("c18-")
    try:
        mcres = mc(tier)
        vh = vlib.go_build("vh", "vh")
        vhr = vlib.go_build("vh", "vh-race", race=True)
        rnd = random.Random(seed * 7 + 3)
        exps, issues, races, samples, states = 0, [], [], [], 0
        nch = 2 if tier == "quick" else 5
        paths = []
        for k in range(nch + 1):
            L = rnd.randint(9, 11)
            gaps = []
            if k < nch:
                pat = [True] * L
                if k == 1:
                    # unrated heights: a reader that sees such a height as the tip asks for the averages of the last RATED height
                    gaps = sorted(rnd.sample(range(3, L - 3), 2))
                    for gI in gaps:
                        pat[gI] = False
                s, base = c09.pattern_chain("c18-%d" % k, seed * 10 + k, pat, 4)
                gaps = [base + gI for gI in gaps]
            else:
                # an asset whose average is unavailable for a while (zero-rated three heights in a row) with conversions into and out of it
                s = c13.live(seed + 31, 0, tier)
                s.s["name"] = "c18-zeroavg"
                s.s.pop("control", None)
                base = s.s["sched"]["PIP10"]
            doc = s.doc()
            sp = os.path.join(work, "s%d.json" % k)
            json.dump(doc, open(sp, "w"))
            heights = rnd.sample(range(base + 3, doc["tip"] - 3), 2 if tier == "quick" else 4)
            if gaps:
                heights = gaps[:2] if tier == "quick" else gaps + heights[:2]
            for c in heights:
                out = os.path.join(work, "gates-%d-%d.ndjson" % (k, c))
                rc, o = vlib.run([vh, "api", "-scenario", sp, "-out", out, "-work", os.path.join(work, "w%d_%d" % (k, c)), "-mode", "gates", "-at", str(c)],
                                 timeout=600, env={"LXRBITSIZE": "8"})
                if rc != 0:
                    if rc in (1, 2):      # the daemon died (fatal / panic, e.g. concurrent map writes)
                        issues.append((out, 0, "C18", "daemon crashed while serving API requests: rc=%d %s" % (rc, o[-300:])))
                        continue
                    raise vlib.Infra("vh api failed rc=%d: %s" % (rc, o[-800:]))
                paths.append(out)
            if k == 0:
                # schedule 7 depends on whether the average binds at that height: played at every height of this chain
                for c in range(base + 2, doc["tip"] - 2):
                    if c in heights:
                        continue
                    out = os.path.join(work, "gates7-%d-%d.ndjson" % (k, c))
                    rc, o = vlib.run([vh, "api", "-scenario", sp, "-out", out, "-work", os.path.join(work, "w7_%d_%d" % (k, c)), "-mode", "gates", "-at", str(c), "-only", "7"],
                                     timeout=600, env={"LXRBITSIZE": "8"})
                    if rc in (1, 2):
                        issues.append((out, 0, "C18", "daemon crashed while serving API requests: rc=%d %s" % (rc, o[-300:])))
                    elif rc != 0:
                        raise vlib.Infra("vh api failed rc=%d: %s" % (rc, o[-800:]))
                    else:
                        paths.append(out)
            # load, with the race detector
            out = os.path.join(work, "load-%d.ndjson" % k)
            rc, o = vlib.run([vhr, "api", "-scenario", sp, "-out", out, "-work", os.path.join(work, "wl%d" % k), "-mode", "load",
                              "-readers", "4" if tier == "quick" else "8"], timeout=1200,
                             env={"LXRBITSIZE": "8", "GORACE": "exitcode=66 halt_on_error=0"})
            # only reports that involve pegnetd code count (the harness and the libraries are not under test)
            reports = [x for x in o.split("==================") if "WARNING: DATA RACE" in x and "github.com/pegnet/pegnetd/" in x]
            nr = len(reports)
            if nr:
                first = reports[0][:1500]
                sites = sorted(set(re.findall(r"github.com/pegnet/pegnetd/([\w/]+\.\(?\*?\w*\)?\.?\w+)\(\)", first)))[:6]
                races.append((k, nr, sites, first))
            elif rc not in (0, 66):
                if rc in (1, 2):
                    issues.append((out, 0, "C18", "daemon crashed under API load: rc=%d %s" % (rc, o[-300:])))
                    continue
                raise vlib.Infra("vh api load failed rc=%d: %s" % (rc, o[-800:]))
            if os.path.exists(out):
                paths.append(out)
        allp = os.path.join(work, "all.ndjson")
        with open(allp, "w") as f:
            for p in paths:
                for line in open(p):
                    e = json.loads(line)
                    if e["ev"] == "ApiExp":
                        e["file"] = os.path.basename(p)
                        f.write(json.dumps(e) + "\n")
                        exps += 1
                        samples.append(e)
        r, iss = validate(allp)
        states += r.distinct
        for (line, tag, text) in iss:
            issues.append((allp, line, tag, text))
        # binding self-test
        evs = [json.loads(l) for l in open(allp)]
        evs[0]["equal"] = False
        st = os.path.join(work, "selftest.ndjson")
        open(st, "w").write("\n".join(json.dumps(e) for e in evs) + "\n")
        if not validate(st)[1]:
            raise vlib.Infra("binding self-test failed")
        viol = 0
        if issues or races:
            keep = os.path.join(vlib.replay_dir(PID), "experiments-seed%d.ndjson" % seed)
            shutil.copyfile(allp, keep)
            with open(keep + ".issues.json", "w") as f:
                json.dump({"issues": [list(i[1:]) for i in issues], "races": [[k, n, s, t] for (k, n, s, t) in races]}, f, indent=1)
            for i in issues[:5]:
                sys.stdout.write("  %s\n" % (i[3][:200],))
            for (k, n, sites, first) in races[:3]:
                sys.stdout.write("  %d data race reports under API load, e.g. %s\n" % (n, sites))
            vlib.violation(PID, keep)
            viol = len(issues) + len(races)
        infeasible = sum(1 for e in samples if not e.get("feasible", True))
        vlib.write_evidence(PID, "model_checking", {
            "states": mcres["states"], "transitions": mcres["transitions"], "traces_validated_against_impl": exps, "trace_states": states,
            "evaluations": exps, "distinct_nontrivial": exps,
            "rule": "Api.tla (TLC): sync loop x 2 readers interleaved at the critical sections of the cache function and of the height publication; on the "
                    "real daemon two schedules taken from TLC's counterexamples are replayed deterministically with gates at seeded heights (a reader asks "
                    "for the synced height between the bump and COMMIT, and right after a COMMIT that failed; a rich-list reader that is the first to ask for the newest averages has its client hang up, resp. its read of pn_rate fail, while it is inside the cache function; a rich-list reader is suspended inside the cache function while the sync goroutine "
                    "applies the next block), and every read method is hammered by concurrent clients during a full sync under the race detector; final "
                    "ledgers are compared with a run without readers; a schedule the code makes infeasible (lock) is recorded as such",
            "samples": samples[:4], "infeasible_schedules": infeasible, "race_reports": sum(n for (_, n, _, _) in races), "mc": mcres,
        }, time.time() - t0, violations=viol,
            assumptions=["race detector and gate hooks observe the schedules that occur; absence of a report is not a proof of absence of races"])
        return 1 if viol else 0
    finally:
        shutil.rmtree(work, ignore_errors=True)


if __name__ == "__main__":
    vlib.main(main)

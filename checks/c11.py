#!/usr/bin/env python3
"""C11 Grading rewards and FCT burns are issued exactly as decided, once."""
import os, random, sys
sys.path.insert(0, os.path.dirname(os.path.abspath(__file__)))
import vlib, scen, lcheck

PID = "C11"


def live(seed, k, tier):
    rnd = random.Random(seed * 131 + k)
    sched = dict(scen.LIVE, SprSig=rnd.choice([2, 14]), DevRewards=rnd.choice([2, 14]), V202=18, OneWaySmall=18)
    sched["SprSig"] = sched["DevRewards"]
    s = scen.Scn("c11-live-%d" % k, sched=sched, seed=seed * 10 + k)
    users = [s.key("A1"), s.key("A2")]
    poor = [s.key("N%d" % i) for i in range(1, 26)]          # keys that never hold PEG: not among the top holders
    zero = [s.key("Z%d" % i) for i in range(1, 26)]          # known to the ledger (they hold pUSD) but hold no PEG: not top holders either
    h = scen.live_preamble(s, users, fund_peg=100 * 10**8)
    s.convert(h, "A1", "PEG", 50 * 10**8, "pUSD")
    s.grade(h); h += 1
    s.grade(h)
    s.transfer(h, "A1", "pUSD", [(z, 1000 + i) for i, z in enumerate(zero)])
    h += 1
    forced = ["spr-zeropeg", "spr-mixzero", "spr-idmismatch", "band-out", "spr-poor", "spr-badsig", "spr-few"]
    while h < 26:
        c = forced.pop(0) if forced and h >= 11 else rnd.choice(["ok", "ok", "few", "none", "many", "dupaddr", "outlier", "badver", "prevmismatch", "spr-few", "spr-poor", "spr-zeropeg", "spr-mixzero",
                        "spr-none", "spr-dupcoin", "spr-badsig", "spr-idmismatch", "spr-garbage", "band-out"])
        n = 25
        oprkw, sprkw = {}, {}
        b = None
        if c == "few":
            b = s.grade(h, n=24, pay=False)
        elif c == "none":
            b = s.grade(h, opr=False)
        elif c == "many":
            b = s.grade(h, n=rnd.choice([26, 40, 60]))
            b["opr"]["payTo"] = ["M%d" % (i % 25 + 1) for i in range(b["opr"]["n"])]
            if "spr" in b:
                b["spr"]["n"] = 25
        elif c == "dupaddr":
            b = s.grade(h)
            b["opr"]["payTo"] = ["M1"] * 10 + ["M%d" % i for i in range(2, 17)]
        elif c == "outlier":
            b = s.grade(h, n=30, opr_alt={str(i): {"pXBT": str(scen.RATES["pXBT"] * (2 + i))} for i in range(3)})
            b["opr"]["payTo"] = ["M%d" % (i % 25 + 1) for i in range(30)]
            if "spr" in b:
                b["spr"]["n"] = 25
        elif c in ("badver", "prevmismatch"):
            b = s.grade(h, pay=False)
            b["opr"]["class"] = c
        else:
            b = s.grade(h)
            sp = b.get("spr")
            if sp:
                if c == "spr-few":
                    sp["n"] = 24
                elif c == "spr-poor":
                    sp["stakers"] = poor
                elif c == "spr-zeropeg":
                    sp["stakers"] = zero
                elif c == "spr-mixzero":
                    sp["stakers"] = zero[:3] + scen.MINERS[:22]
                elif c == "spr-none":
                    del b["spr"]
                elif c == "spr-dupcoin":
                    sp["payTo"] = ["M1"] * 3 + ["M%d" % i for i in range(2, 24)]
                elif c == "spr-badsig":
                    sp["class"] = "badsig"
                elif c == "spr-idmismatch":
                    sp["signers"] = list(reversed(scen.MINERS))     # signed by another holder's key than the declared id
                elif c == "spr-garbage":
                    sp["raw"] = [{"extids": ["07", "00" * 32, "00" * 96], "content": "00"}, {"extids": ["07", "aa"], "content": ""}]
        if rnd.random() < 0.5:
            s.transfer(h, "A1", "PEG", [("A2", 1000)])
        h += 1
    s.grade(h); s.tip(h)
    return s


def legacy(seed, k, tier):
    rnd = random.Random(seed * 137 + k)
    s = scen.Scn("c11-leg-%d" % k, sched=scen.LEG, seed=seed * 10 + k)
    users = [s.key("A%d" % i) for i in range(1, 5)]
    L = scen.LEG
    for h in range(1, 25):
        n = 10 if h < L["GradingV2"] else 25
        c = rnd.choice(["ok", "ok", "ok", "few", "none", "many", "wrongera"])
        if c == "few":
            s.grade(h, n=n - 1, pay=False, spr=False)
        elif c == "none":
            pass
        elif c == "many":
            b = s.grade(h, n=n + rnd.randint(1, 30), spr=False)
            b["opr"]["payTo"] = ["M%d" % (i % 25 + 1) for i in range(b["opr"]["n"])]
        elif c == "wrongera":
            b = s.grade(h, n=n, pay=False, spr=False)
            v = scen_version(L, h)
            b["opr"]["ver"] = v - 1 if v > 1 else 2          # records of the neighbouring era: no winners
        else:
            s.grade(h, n=n, spr=h >= L["V20"] + 2)
        for u in users:
            if rnd.random() < 0.5:
                s.burn(h, u, rnd.randint(1, 10**10), shape=rnd.choice(["ok", "ok", "ok", "hasFctOut", "ecAmt", "twoInputs", "wrongEc", "noEc", "twoEc"]))
    s.tip(24)
    return s


def scen_version(L, h):
    v = 1
    for k, x in (("GradingV2", 2), ("PEGFloat", 3), ("V4", 4), ("V20", 5)):
        if h >= L[k]:
            v = x
    return v


def family(seed, tier):
    docs = []
    n = 2 if tier == "quick" else 8
    for k in range(n):
        for f in (live, legacy):
            s = f(seed, k, tier)
            docs.append((s.s["name"], s.doc()))
    return docs


def main():
    # a record that could not be downloaded is not "a non-winning record": the block must be retried, not graded without it
    doc = live(vlib.seed() + 3, 0, vlib.tier()).doc()
    doc["name"] = "c11-reqfault"
    n, bad = lcheck.upstream_fault_pass(PID, doc, {"pn_winners", "pn_grade", "pn_addresses"}, "the winners / rewards differ from the fault-free run",
                                        stride=3 if vlib.tier() == "quick" else 1)
    rc = check(n)
    return 1 if bad else rc


def check(nfault):
    return lcheck.run_check(PID, family, {"C11"}, extra_cov={"upstream_fault_experiments": nfault},
        rule="blocks with OPR sets of every class (none, one fewer than the winner count, exact, more than the cutoff of 50, shared payout addresses, outliers, "
             "wrong version for the height, wrong previous winners) for grader versions 1..5, SPR sets (none, 24, holders outside the top PEG holders, duplicate "
             "coinbase, bad signature, id not matching the signing key, garbage records) for S1..S3, and factoid blocks with valid and invalid burn shapes; the "
             "pegnet grader module run on the same entries is the oracle for OPR winners, Ledger.tla decides SPR eligibility from the committed balances; TLC "
             "checks PEG/pFCT deltas, pn_winners rows and that nothing else is credited; non-trivial = every graded block",
        corrupt=lcheck.corrupt_balance)


if __name__ == "__main__":
    vlib.main(main)

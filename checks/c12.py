#!/usr/bin/env python3
"""C12 Recorded rates follow the winning records and are immutable."""
import os, random, sys
sys.path.insert(0, os.path.dirname(os.path.abspath(__file__)))
import vlib, scen, lcheck

PID = "C12"


def band_cases(era):
    """(opr rate, spr rate) pairs around the band of the era; edges avoided where the float product is not exact."""
    out = []
    if era == "v0":      # [V20, DevRewards): 1 %, 0.1 % when the SPR rate >= 100000
        for spr, pct in ((50000, 100), (10**8, 1000), (99999, 100), (100000, 1000)):
            lo, hi = spr - spr // pct, spr + spr // pct
            out += [(spr, spr), (lo + 1, spr), (hi - 1, spr), (lo - 2, spr), (hi + 2, spr)]
    elif era == "v10":   # [DevRewards, V202): 10 %
        spr = 10**8
        out += [(spr, spr), (9 * 10**7 + 1, spr), (11 * 10**7 - 1, spr), (9 * 10**7 - 1, spr), (11 * 10**7 + 1, spr)]
    else:                # >= V202: 25 %, exact edges are exactly representable
        spr = 4 * 10**7
        out += [(spr, spr), (3 * 10**7, spr), (5 * 10**7, spr), (3 * 10**7 - 1, spr), (5 * 10**7 + 1, spr), (1, spr), (10**12, spr)]
    return out


def live(seed, k, tier):
    rnd = random.Random(seed * 211 + k)
    sched = dict(scen.LIVE, DevRewards=16, SprSig=16, V202=28, OneWaySmall=28)
    s = scen.Scn("c12-live-%d" % k, sched=sched, seed=seed * 10 + k)
    users = [s.key("A1"), s.key("A2")]
    h = scen.live_preamble(s, users, fund_peg=500 * 10**8)
    s.convert(h, "A1", "PEG", 10**9, "pUSD"); s.grade(h); h += 1
    # the first blocks of every era go through the cases where the two records lie on either side of a threshold of the rule
    # (band width chosen by the SPR rate at 100000 in the first era), then seeded choices
    # (exact edges whose float product is not exact, e.g. 100100 against 100000 * 1.001, are left out: see band_cases)
    straddle = {"v0": [(100997, 99999), (99001, 100000), (100099, 100000), (99000, 99999), (100101, 100000)],
                "v10": [(9 * 10**7 + 1, 10**8), (11 * 10**7 + 1, 10**8)], "v25": [(3 * 10**7, 4 * 10**7), (5 * 10**7 + 1, 4 * 10**7)]}
    while h < 40:
        era = "v0" if h < 16 else ("v10" if h < 28 else "v25")
        forced = straddle[era].pop(0) if straddle[era] else None
        c = "both" if forced else rnd.choice(["both", "both", "both", "opr", "spr", "none", "few"])
        if c == "both":
            o, sp = forced or rnd.choice(band_cases(era))
            asset = rnd.choice(["pXBT", "pDCR", "PEG"])
            s.grade(h, rates={asset: o}, spr_rates={asset: sp})
            inband = {"v0": None, "v10": None, "v25": None}
        elif c == "opr":
            s.grade(h, spr=False)
        elif c == "spr":
            s.grade(h, opr=False)
        elif c == "few":
            s.grade(h, n=24, pay=False)
        # a conversion in every block: it must execute only in blocks that record rates
        s.convert(h, rnd.choice(users), "PEG", 10**7, "pUSD", track=False)
        h += 1
    s.grade(h); s.tip(h)
    return s


def eq_start(seed, k):
    """The market-cap equation phase begins at or before the first graded block: no PEG exists yet when the first rates are recorded
    (PEG must be priced 0 whatever the winning record says), then PEG exists but nothing else, then FCT burns give the other side."""
    L = dict(scen.LEG, GradingV2=1, PEGPricing=[1, 2, 3][k % 3], TxConv=4)
    s = scen.Scn("c12-eq0-%d" % k, sched=L, seed=seed * 10 + 3 + k, assets=["PEG", "pUSD", "pFCT", "pXBT"])
    us = [s.key("A1"), s.key("A2")]
    for h in range(2, 11):
        if h != 5:
            s.grade(h, n=25, spr=False, rates={"PEG": scen.RATES["PEG"] + h * 1000})
        if h in (3, 4):
            s.burn(h, us[h % 2], 500 * 10**8)
        if h == 6:
            s.convert(h, us[0], "pFCT", 10**9, "pUSD", track=False)
    s.tip(11)
    return s


def family(seed, tier):
    docs = []
    n = 2 if tier == "quick" else 8
    for k in range(n):
        s = live(seed, k, tier)
        docs.append((s.s["name"], s.doc()))
        g = scen.legacy_chain(seed * 10 + k, name="c12-leg-%d" % k, tip=26)
        docs.append((g.s["name"], g.doc()))
    g = scen.snapshot_gap_chain(seed, name="c12-snapgap")
    docs.append((g.s["name"], g.doc()))
    for k in range(1 if tier == "quick" else 3):
        e = eq_start(seed, k)
        docs.append((e.s["name"], e.doc()))
    return docs


def fault_pass(seed, tier):
    """The rates of a block are those of the winning records even when a download of one of the block's entries fails once: every 3rd
    (thorough: every) upstream request of every block of one chain fails once; afterwards pn_rate / pn_grade / pn_winners must equal
    the fault-free run's (a block graded without an entry it could not fetch records another record's rates for good)."""
    import json, shutil
    import c02
    work = vlib.scratch("c12f-")
    try:
        vh = vlib.go_build("vh", "vh")
        doc = live(seed + 5, 0, tier).doc()
        doc["name"] = "c12-reqfault"
        path = c02.crash_run(vh, doc, work, "c12-req", [], 3 if tier == "quick" else 1, seed % 3, span=3, mode="reqfault")
        evs = [json.loads(l) for l in open(path)]
        if any(e["ev"] == "Infra" for e in evs):
            raise vlib.Infra("fault experiment infrastructure failure")
        exps = [e for e in evs if e["ev"] == "FaultExp"]
        bad = [e for e in exps if not (e.get("equal") and e.get("contOK", True)) and set(e.get("diffTables") or []) & {"pn_rate", "pn_grade", "pn_winners"}]
        if bad:
            keep = os.path.join(vlib.replay_dir(PID), "reqfault-seed%d.ndjson" % seed)
            shutil.copyfile(path, keep)
            json.dump(doc, open(keep + ".scenario.json", "w"))
            sys.stdout.write("  after a failed download (request %s of block %s) the recorded rates / winners differ from the fault-free run: %s\n"
                             % (bad[0]["k"], bad[0]["h"], bad[0].get("diffTables")))
            vlib.violation(PID, keep)
        return len(exps), len(bad)
    finally:
        shutil.rmtree(work, ignore_errors=True)


def main():
    n, bad = fault_pass(vlib.seed(), vlib.tier())
    rc = check(n)
    return 1 if bad else rc


def check(nfault):
    return lcheck.run_check(PID, family, {"C12"}, extra_cov={"upstream_fault_experiments": nfault},
        rule="every combination of OPR / SPR winners (both, either, none, one record short) with the OPR rate inside, next to the edge of, and outside "
             "the tolerance band of each 2.0 era (1% / 0.1%, 10%, 25% incl. the exact 25% edges), PEG priced zero / by the market-cap equation over the committed "
             "supply / floating in the legacy eras (incl. an equation phase that starts before any PEG exists); TLC compares pn_rate of every height with Combine(winner OPR, winner SPR, era), requires unrated blocks to "
             "execute no pending conversion, and checks a digest of every earlier height's rates after every block (immutability); in addition every 3rd (thorough: every) upstream request of one chain "
             "fails once and the rate / grade / winner tables must still equal the fault-free run's; non-trivial = every graded block",
        corrupt=lcheck.corrupt_balance)


if __name__ == "__main__":
    vlib.main(main)

"""Conversion kernel conformance (C07): the real conversions.Convert on a grid of arguments vs. Ledger.Convert (decided by TLC),
plus the exhaustive kernel model MC_Convert; one run per process."""
import json, os, re, shutil, sys
import vlib

_cache = {}


def run(tier):
    """Returns a coverage dictionary; 'mismatches' > 0 means the code's kernel is not the specified one."""
    if "r" in _cache:
        return _cache["r"]
    work = vlib.scratch("convk-")
    try:
        cov = {"mc_configs": []}
        for cfg in (["MC_Convert.cfg"] if tier == "quick" else ["MC_Convert.cfg", "MC_Convert_thorough.cfg"]):
            r = vlib.tlc("MC_Convert", cfg=cfg, workers=8, timeout=3600, deadlock=False)
            if not r.ok:
                raise vlib.Infra("exhaustive model MC_Convert/%s failed: %s\n%s" % (cfg, r.violation or r.error, r.out[-1200:]))
            cov["mc_configs"].append({"cfg": cfg, "distinct": r.distinct, "generated": r.generated, "wall_s": round(r.wall, 1)})
        vh = vlib.go_build("vh", "vh")
        out = os.path.join(work, "convk.ndjson")
        rc, o = vlib.run([vh, "convk", "-out", out], timeout=300)
        if rc != 0:
            raise vlib.Infra("vh convk failed: %s" % o[-400:])
        lines = open(out).read().splitlines()
        # binding self-test: one corrupted result must be reported by the trace specification
        # (a fixed line, independent of what the code under test returned: 5 x 2 / 1 = 10, recorded as 11)
        tst = [json.dumps({"era": 0, "amt": 5, "fr": 2, "fa": 2, "tr": 1, "ta": 1, "ok": True, "v": 11})]
        rs = vlib.tlc("Trace_Convert", cfg="Trace_Convert.cfg", workers=1, files=[("trace.ndjson", "\n".join(tst) + "\n")], timeout=300, deadlock=False)
        if not re.search(r'<<"DONE", 1, 1, 0>>', rs.out):
            raise vlib.Infra("Trace_Convert accepted a corrupted line: %s" % rs.out[-800:])
        r = vlib.tlc("Trace_Convert", cfg="Trace_Convert.cfg", workers=1, files=[("trace.ndjson", out)], timeout=900, deadlock=False)
        m = re.search(r'<<"DONE", (\d+), (\d+), (\d+)>>', r.out)
        if r.rc != 0 or not m or int(m.group(1)) != len(lines):
            raise vlib.Infra("Trace_Convert failed: %s" % r.out[-800:])
        cov["kernel_calls_compared"] = len(lines)
        cov["mismatches"] = int(m.group(2))
        cov["mismatches_refusal"] = int(m.group(3))
        cov["issues"] = []
        for x in re.findall(r'^"ISSUE (.*)"\s*$', r.out, re.M):
            i = json.loads(json.loads('"' + x + '"'))
            if i not in cov["issues"]:
                cov["issues"].append(i)
        cov["self_test"] = "a line with its result changed by one is reported"
        # 64-bit arguments (edges of int64 / uint64, overflow branch), Big.tla arithmetic
        outb = os.path.join(work, "convk-big.ndjson")
        rc, o = vlib.run([vh, "convk", "-big", "-out", outb], timeout=300)
        if rc != 0:
            raise vlib.Infra("vh convk -big failed: %s" % o[-400:])
        nb = len(open(outb).read().splitlines())
        rb = vlib.tlc("Trace_ConvertBig", cfg="Trace_ConvertBig.cfg", workers=1, files=[("trace.ndjson", outb)], timeout=1800, deadlock=False)
        mb = re.search(r'<<"DONE", (\d+), (\d+), (\d+)>>', rb.out)
        if rb.rc != 0 or not mb or int(mb.group(1)) != nb:
            raise vlib.Infra("Trace_ConvertBig failed: %s" % rb.out[-800:])
        cov["kernel_calls_compared_64bit"] = nb
        cov["of_them_refused_or_overflowing"] = int(mb.group(3))
        cov["mismatches"] += int(mb.group(2))
        for x in re.findall(r'^"ISSUE (.*)"\s*$', rb.out, re.M):
            i = json.loads(json.loads('"' + x + '"'))
            if i[0]["ok"] != i[1]["ok"]:
                cov["mismatches_refusal"] += 1
            cov["issues"].append(i)
        _cache["r"] = cov
        return cov
    finally:
        shutil.rmtree(work, ignore_errors=True)


def check(pid, tier, refusal_only=False):
    """Prints a VIOLATION line when the real kernel differs from Ledger.Convert; returns (mismatches, coverage).
    refusal_only: count only calls whose refusal (error or not) differs - the admission half of the kernel (C13)."""
    cov = run(tier)
    n = cov["mismatches_refusal"] if refusal_only else cov["mismatches"]
    if n:
        iss = [i for i in cov["issues"] if not refusal_only or i[0]["ok"] != i[1]["ok"]]
        p = vlib.save_replay(pid, "convert-kernel-differs.json", json.dumps(iss, indent=1) + "\n")
        for i in iss[:3]:
            sys.stdout.write("  conversions.Convert%s returned ok=%s v=%s; the specification says %s\n" % (
                tuple(i[0][k] for k in ("era", "amt", "fr", "fa", "tr", "ta")), i[0]["ok"], i[0]["v"], i[1]))
        vlib.violation(pid, p)
    return n, cov


if __name__ == "__main__":
    n, c = check("C07", vlib.tier())
    print(json.dumps(c, indent=1)[:1500])
    sys.exit(1 if n else 0)

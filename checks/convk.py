"""Conversion kernel conformance (C07): the real conversions.Convert on a grid of arguments vs. Ledger.Convert (decided by TLC),
plus the exhaustive kernel model MC_Convert; one run per process."""
import json, os, re, shutil, sys
import vlib

_cache = {}


def run(tier):
    """Returns a coverage dictionary; 'mismatches' > 0 means the code's kernel is not the specified one."""
    if "r" in _cache:
        return _cache["r"]
    work = vlib.scratch("convk-")
    try:
        cov = {"mc_configs": []}
        for cfg in (["MC_Convert.cfg"] if tier == "quick" else ["MC_Convert.cfg", "MC_Convert_thorough.cfg"]):
            r = vlib.tlc("MC_Convert", cfg=cfg, workers=8, timeout=3600, deadlock=False)
            if not r.ok:
                raise vlib.Infra("exhaustive model MC_Convert/%s failed: %s\n%s" % (cfg, r.violation or r.error, r.out[-1200:]))
            cov["mc_configs"].append({"cfg": cfg, "distinct": r.distinct, "generated": r.generated, "wall_s": round(r.wall, 1)})
        vh = vlib.go_build("vh", "vh")
        out = os.path.join(work, "convk.ndjson")
        rc, o = vlib.run([vh, "convk", "-out", out], timeout=300)
        if rc != 0:
            raise vlib.Infra("vh convk failed: %s" % o[-400:])
        lines = open(out).read().splitlines()
        # binding self-test: one corrupted result must be reported by the trace specification
        e = json.loads(lines[len(lines) // 2 + 7])
        tst = [json.dumps(dict(e, ok=True, v=(e["v"] + 1)))]
        rs = vlib.tlc("Trace_Convert", cfg="Trace_Convert.cfg", workers=1, files=[("trace.ndjson", "\n".join(tst) + "\n")], timeout=300, deadlock=False)
        if not re.search(r'<<"DONE", 1, 1>>', rs.out):
            raise vlib.Infra("Trace_Convert accepted a corrupted line: %s" % rs.out[-800:])
        r = vlib.tlc("Trace_Convert", cfg="Trace_Convert.cfg", workers=1, files=[("trace.ndjson", out)], timeout=900, deadlock=False)
        m = re.search(r'<<"DONE", (\d+), (\d+)>>', r.out)
        if r.rc != 0 or not m or int(m.group(1)) != len(lines):
            raise vlib.Infra("Trace_Convert failed: %s" % r.out[-800:])
        cov["kernel_calls_compared"] = len(lines)
        cov["mismatches"] = int(m.group(2))
        cov["issues"] = [json.loads(json.loads('"' + x + '"')) for x in re.findall(r'^"ISSUE (.*)"\s*$', r.out, re.M)]
        cov["self_test"] = "a line with its result changed by one is reported"
        _cache["r"] = cov
        return cov
    finally:
        shutil.rmtree(work, ignore_errors=True)


def check(pid, tier):
    """Prints a VIOLATION line when the real kernel differs from Ledger.Convert; returns (mismatches, coverage)."""
    cov = run(tier)
    if cov["mismatches"]:
        p = vlib.save_replay(pid, "convert-kernel-differs.json", json.dumps(cov["issues"], indent=1) + "\n")
        for i in cov["issues"][:3]:
            sys.stdout.write("  conversions.Convert%s returned ok=%s v=%s; the specification says %s\n" % (
                tuple(i[0][k] for k in ("era", "amt", "fr", "fa", "tr", "ta")), i[0]["ok"], i[0]["v"], i[1]))
        vlib.violation(pid, p)
    return cov["mismatches"], cov


if __name__ == "__main__":
    n, c = check("C07", vlib.tier())
    print(json.dumps(c, indent=1)[:1500])
    sys.exit(1 if n else 0)

#!/usr/bin/env python3
"""C20  Canonical encoding and exact amounts at the edges.

Parts (see CONTRACT.md):
  1. TLC model-checks tla/MC_Codec.tla: the pure operators of tla/Codec.tla (ParseAmount,
     Canonical, MustAccept, RoundTrip) are evaluated on EVERY abstract case inside the bounds of
     the tier's cfg (one state per case), internal consistency invariants are checked, and every
     case is exported as NDJSON together with the spec's verdict.
  2. harness/cmd/c20 renders every abstract case (plus seeded extra cases generated here in the
     SAME abstract format) to concrete bytes and runs the real code: cmd.FactoidToFactoshi,
     fat2.NewTransactionBatch on a signed entry, TransactionBatch.Sign (re-encode) and the second
     decode.  It records what the code did; it has no opinion.
  3. TLC (tla/Trace_Codec.tla) recomputes the intended verdict / value / decoded transactions from
     the abstract case embedded in every observation line and compares.  The verdict is TLC's.

Known findings are matched by the failure CLASS computed by TLC (a concrete signature of the
input and of what the code did with it) and confirmed by a second TLC run with the finding's
named deviation switched on.

  python3 checks/c20.py --tier quick|thorough          the check
  python3 checks/c20.py --replay out/C20/<artefact>    re-run the cases of a stored artefact
"""
import json, os, random, re, shutil, sys, time
from concurrent.futures import ThreadPoolExecutor

sys.path.insert(0, os.path.dirname(os.path.abspath(__file__)))
import vlib

PID = "C20"

PARAMS = {
    "quick":    dict(cfg="MC_Codec.cfg", mc_timeout=900, rnd_amt=10000, rnd_batch=10000, chunk=25000),
    "thorough": dict(cfg="MC_Codec_thorough.cfg", mc_timeout=2400, rnd_amt=100000, rnd_batch=100000,
                     chunk=50000),
}

CLASS_DEV = {
    "amount-overflow": "DevAmountWrap",
    "key-case": "DevKeyCaseFold",
    "length-compensation": "DevLengthCompensation",
}
CLASS_WHAT = {
    "amount-overflow": "cmd.FactoidToFactoshi accepts a well formed amount whose exact value is >= 2^64 "
                       "and returns a wrapped value",
    "key-case": "a FAT-2 batch whose member name differs from a known key only in letter case is accepted",
    "length-compensation": "a FAT-2 batch whose input has no \"type\" member is accepted when another member "
                           "fills the missing 28 bytes (decoded type is invalid, re-encoding fails)",
}

TRACE_CFG = """CONSTANT Dev = {%s}
INIT Init
NEXT Next
INVARIANT AllPass
CHECK_DEADLOCK FALSE
"""

TOK = {10: ".", 11: "-", 12: "+", 13: " ", 14: "e", 15: "x", 16: "\n"}


def tok_text(tok):
    return "".join(str(t) if t < 10 else TOK.get(t, "?") for t in tok)


def digits(n):
    return [int(ch) for ch in str(n)]


# ---------------------------------------------------------------- seeded extra cases (abstract!)

def known_tickers():
    src = open(os.path.join(vlib.TLA, "Codec.tla")).read()
    m = re.search(r"KnownTickers ==\s*\{(.*?)\}", src, re.S)
    if not m:
        raise vlib.Infra("cannot read KnownTickers from Codec.tla")
    return re.findall(r'"([A-Za-z]+)"', m.group(1))


def gen_amounts(rng, n, first_id):
    """Random decimal strings around the boundaries, as token sequences."""
    out = []
    bw = [184467440737, 184467440738, 92233720368, 92233720369, 0, 1, 10 ** 11, 10 ** 12 - 1]
    bf = [9551615, 9551616, 54775807, 54775808, 0, 1, 99999999]
    for i in range(n):
        r = rng.random()
        if r < 0.35:
            w = digits(max(0, rng.choice(bw) + rng.randint(-3, 3)))
        elif r < 0.45:
            w = []
        else:
            w = [rng.randint(0, 9) for _ in range(rng.randint(0, 25))]
        if rng.random() < 0.2:
            w = [0] * rng.randint(1, 4) + w
        r = rng.random()
        if r < 0.25:
            f = None
        elif r < 0.55:
            v = max(0, rng.choice(bf) + rng.randint(-2, 2))
            f = [int(c) for c in "%08d" % v]
            if rng.random() < 0.2:
                f = f + [rng.randint(0, 9)]
            elif rng.random() < 0.2:
                while f and f[-1] == 0 and rng.random() < 0.8:
                    f = f[:-1]
        else:
            f = [rng.randint(0, 9) for _ in range(rng.randint(0, 10))]
        tok = list(w) + ([10] + f if f is not None else [])
        if rng.random() < 0.12:
            tok.insert(rng.randint(0, len(tok)), rng.randint(10, 16))
        out.append({"id": first_id + i, "tok": tok})
    return out


def amt(n, f="int"):
    return {"f": f, "d": digits(n)}


def split(rng, total, k):
    cuts = sorted(rng.randint(0, total) for _ in range(k - 1))
    parts, prev = [], 0
    for c in cuts + [total]:
        parts.append(c - prev)
        prev = c
    return parts


def gen_batches(rng, n, first_id, tickers):
    """Random batches: mostly canonical (random order of keys, random tickers, totals at the 2^63
    and 2^64 edges, exact splits), each with a few random defects.  TLC decides every one."""
    out = []
    edge = [0, 1, 2 ** 63 - 1, 2 ** 63, 2 ** 64 - 1, 10 ** 17, 2 ** 62, 12345678901234567]
    badtick = ["pXYZ", "USD", "pusd", "peg", "num", "Peg", "pUSDD"]
    forms = ["neg", "frac", "quoted", "exp", "lz"]

    def perm(ks):
        ks = list(ks)
        if rng.random() < 0.5:
            rng.shuffle(ks)
        return ks

    def spoil(ks, fold):
        r = rng.random()
        ks = list(ks)
        if r < 0.25 and ks:
            ks.insert(rng.randint(0, len(ks)), rng.choice(ks))          # duplicate
        elif r < 0.5:
            ks.insert(rng.randint(0, len(ks)), "unknown")
        elif r < 0.75 and ks:
            ks.pop(rng.randrange(len(ks)))                               # omission
        elif ks:
            j = rng.randrange(len(ks))
            ks[j] = rng.choice(fold.get(ks[j], [ks[j]]))
        return ks

    fold = {"version": ["Version", "VERSION"], "transactions": ["Transactions", "TRANSACTIONS"],
            "metadata": ["Metadata", "METADATA"], "input": ["Input", "INPUT"],
            "transfers": ["Transfers", "TRANSFERS"], "conversion": ["Conversion", "CONVERSION"],
            "address": ["Address", "ADDRESS"], "amount": ["Amount", "AMOUNT"], "type": ["Type", "TYPE"]}

    for i in range(n):
        defect = rng.random() < 0.55
        ntx = rng.choice([1, 1, 1, 2, 2, 3])
        who = rng.choice(["A", "B"])
        txs = []
        for _ in range(ntx):
            total = rng.choice(edge) if rng.random() < 0.6 else rng.randint(0, 2 ** 64 - 1)
            if rng.random() < 0.5:
                total = min(total, 2 ** 63 - 1)
            total = max(0, total + rng.randint(-2, 2)) if rng.random() < 0.5 else total
            total = min(total, 2 ** 64 + 5)
            itype = rng.choice(tickers)
            conv = rng.choice(tickers)
            is_conv = rng.random() < 0.4
            parts = split(rng, total, rng.randint(1, 4))
            trs = [{"keys": perm(["address", "amount"]), "addr": rng.choice(["A", "B", "B", "Z"]),
                    "amt": amt(p)} for p in parts]
            tk = ["input", "conversion" if is_conv else "transfers"]
            if rng.random() < 0.2:
                tk.append("metadata")
            tx = {"tkeys": perm(tk), "ikeys": perm(["address", "amount", "type"]), "iaddr": who,
                  "itype": itype, "iamt": amt(total), "trs": trs, "conv": conv}
            txs.append(tx)
        shape = {"bkeys": perm(["version", "transactions"]), "ver": "1",
                 "ws": rng.choice(["none", "none", "spaced"]),
                 "ukind": rng.choice(["short", "short", "pad28", "pad13"]), "txs": txs}
        if defect:
            for _ in range(rng.choice([1, 1, 2])):
                tx = rng.choice(txs)
                k = rng.randint(0, 15)
                if k == 0:
                    shape["bkeys"] = spoil(shape["bkeys"], fold)
                elif k == 1:
                    shape["ver"] = rng.choice(["0", "2", "str"])
                elif k == 2:
                    tx["tkeys"] = spoil(tx["tkeys"], fold)
                elif k == 3:
                    tx["ikeys"] = spoil(tx["ikeys"], fold)
                elif k == 4:
                    tx["iaddr"] = rng.choice(["A", "B", "Z", "BAD"])
                elif k == 5:
                    tx["itype"] = rng.choice(badtick)
                elif k == 6:
                    tx["conv"] = rng.choice(badtick + [tx["itype"]])
                elif k == 7:
                    tx["iamt"]["f"] = rng.choice(forms)
                elif k == 8 and tx["trs"]:
                    rng.choice(tx["trs"])["amt"]["f"] = rng.choice(forms)
                elif k == 9 and tx["trs"]:
                    t = rng.choice(tx["trs"])
                    t["keys"] = spoil(t["keys"], fold)
                elif k == 10:                                   # sum off by a little
                    v = int("".join(map(str, tx["iamt"]["d"]))) + rng.choice([-1, 1, 2])
                    tx["iamt"]["d"] = digits(max(0, v))
                elif k == 11:
                    tx["trs"] = []
                elif k == 12:
                    tx["tkeys"] = perm(["input", "transfers", "conversion"])
                elif k == 13 and tx["trs"]:
                    rng.choice(tx["trs"])["addr"] = "BAD"
                elif k in (14, 15):
                    # outputs whose TRUE sum exceeds the input by exactly 2^64 (a 64-bit running total would wrap
                    # back to the input), ordered so that every wrapped running total stays <= the input
                    v = int("".join(map(str, tx["iamt"]["d"])))
                    v = min(v, 2 ** 63 - 1)
                    tx["iamt"] = amt(v)
                    a = rng.randint(0, v)
                    b = 2 ** 64 - 1 - rng.randint(0, min(a, 1000)) if a > 0 else 2 ** 64 - 1
                    c = 2 ** 64 + v - a - b
                    if 0 <= c < 2 ** 64 and a + b + c == v + 2 ** 64:
                        tx["trs"] = [{"keys": ["address", "amount"], "addr": "B", "amt": amt(x)} for x in (a, b, c)]
                        if "conversion" in tx["tkeys"]:
                            tx["tkeys"] = [("transfers" if x == "conversion" else x) for x in tx["tkeys"]]
        out.append({"id": first_id + i, "shape": shape})
    return out


# ---------------------------------------------------------------- TLC trace validation

FAIL_RE = re.compile(r'<<"C20FAIL", "(\w+)", (\d+), "([\w-]+)">>')
VAL_RE = re.compile(r'<<"C20VALIDATED", (\d+), (\d+), (\d+), (\d+), (\d+), (\d+)>>')


def validate(amt_lines, batch_lines, dev=(), timeout=1800, heap="6g"):
    """One TLC run of Trace_Codec.  Returns (fails [(kind, id, class)], n_amt, n_batch, result)."""
    cfg = TRACE_CFG % ", ".join('"%s"' % d for d in sorted(dev))
    files = [("obs_amt.ndjson", "".join(l + "\n" for l in amt_lines).encode()),
             ("obs_batch.ndjson", "".join(l + "\n" for l in batch_lines).encode()),
             ("Trace_Codec_run.cfg", cfg.encode())]
    r = vlib.tlc("Trace_Codec", cfg="Trace_Codec_run.cfg", workers=1, timeout=timeout, files=files,
                 heap=heap, deadlock=False)
    m = VAL_RE.search(r.out)
    if not m:
        raise vlib.Infra("Trace_Codec did not report:\n" + r.out[-3000:])
    na, nb, _, _, ba, bb = map(int, m.groups())
    fails = [(k, int(i), c) for k, i, c in FAIL_RE.findall(r.out)]
    if na != len(amt_lines) or nb != len(batch_lines):
        raise vlib.Infra("Trace_Codec read %d+%d lines, expected %d+%d" % (na, nb, len(amt_lines), len(batch_lines)))
    if len(fails) != ba + bb:
        raise vlib.Infra("Trace_Codec printed %d failures but counted %d" % (len(fails), ba + bb))
    if fails and r.violation != "AllPass":
        raise vlib.Infra("Trace_Codec: failures without invariant violation:\n" + r.out[-2000:])
    if not fails and not r.ok:
        raise vlib.Infra("Trace_Codec failed: %s\n%s" % (r.error or r.violation, r.out[-3000:]))
    return fails, na, nb, r


def validate_all(amt_lines, batch_lines, chunk, dev=()):
    jobs = []
    if amt_lines:
        jobs.append((amt_lines, []))
    for i in range(0, len(batch_lines), chunk):
        jobs.append(([], batch_lines[i:i + chunk]))
    if not jobs:
        return [], 0
    fails, n = [], 0
    with ThreadPoolExecutor(max_workers=max(1, min(4, vlib.NCPU // 4, len(jobs)))) as ex:
        for f, na, nb, _ in ex.map(lambda j: validate(j[0], j[1], dev=dev), jobs):
            fails += f
            n += na + nb
    return fails, n


def run_harness(binp, d, amt_cases, batch_cases):
    pa, pb = os.path.join(d, "in_amt.ndjson"), os.path.join(d, "in_batch.ndjson")
    with open(pa, "w") as f:
        for l in amt_cases:
            f.write(l + "\n")
    with open(pb, "w") as f:
        for l in batch_cases:
            f.write(l + "\n")
    oa, ob, od = (os.path.join(d, n) for n in ("obs_amt.ndjson", "obs_batch.ndjson", "detail.ndjson"))
    rc, out = vlib.run([binp, "-amt", pa, "-batch", pb, "-out-amt", oa, "-out-batch", ob, "-detail", od],
                       timeout=1800)
    if rc != 0:
        raise vlib.Infra("harness c20 failed (%d):\n%s" % (rc, out[-3000:]))
    rd = lambda p: [l for l in open(p).read().split("\n") if l.strip()]
    obs_a, obs_b, det = rd(oa), rd(ob), rd(od)
    if len(obs_a) != len(amt_cases) or len(obs_b) != len(batch_cases):
        raise vlib.Infra("harness lost lines: %d/%d amounts, %d/%d batches"
                         % (len(obs_a), len(amt_cases), len(obs_b), len(batch_cases)))
    details = {}
    for l in det:
        o = json.loads(l)
        details[(o["kind"], o["id"])] = o
    return obs_a, obs_b, details


# ---------------------------------------------------------------- binding self-test

def selftest(obs_a, obs_b, failed):
    """Corrupt one observed field in a handful of lines that passed; TLC must reject every one."""
    ca, cb, want = [], [], {}

    def first(lines, kind, pred):
        for l in lines:
            o = json.loads(l)
            if (kind, o["id"]) not in failed and (kind, o["id"]) not in want and pred(o):
                return o
        return None

    o = first(obs_a, "amt", lambda o: o["obs"]["ok"] and len(o["obs"]["v"]) > 1)
    if o:
        o["obs"]["v"][-1] = (o["obs"]["v"][-1] + 1) % 10
        ca.append(o); want[("amt", o["id"])] = "value altered by one digit"
    o = first(obs_a, "amt", lambda o: not o["obs"]["ok"] and any(t > 10 for t in o["tok"]))
    if o:
        o["obs"] = {"ok": True, "v": [0]}
        ca.append(o); want[("amt", o["id"])] = "junk accepted"
    o = first(obs_a, "amt", lambda o: o["obs"]["ok"] and o["tok"] and o["tok"][0] in range(1, 10)
              and all(t < 10 for t in o["tok"]) and len(o["tok"]) < 9)
    if o:
        o["obs"] = {"ok": False, "v": []}
        ca.append(o); want[("amt", o["id"])] = "plain integer refused"
    o = first(obs_b, "batch", lambda o: o["obs"]["ok"] and o["obs"]["dec2"])
    if o:
        o["obs"]["dec2"][0]["iamt"] = o["obs"]["dec2"][0]["iamt"] + [0]
        cb.append(o); want[("batch", o["id"])] = "second decode differs"
    o = first(obs_b, "batch", lambda o: o["obs"]["ok"] and o["shape"]["ws"] == "none"
              and "metadata" not in o["shape"]["bkeys"])
    if o:
        o["obs"].update(ok=False, reenc=False, ok2=False, dec1=[], dec2=[])
        cb.append(o); want[("batch", o["id"])] = "canonical batch refused"
    o = first(obs_b, "batch", lambda o: not o["obs"]["ok"] and o["shape"]["ver"] != "1")
    if o:
        o["obs"].update(ok=True, parse_ok=True, data_ok=True, reenc=True, ok2=True)
        cb.append(o); want[("batch", o["id"])] = "wrong version accepted"
    if len(want) < 4:
        raise vlib.Infra("self-test: not enough suitable lines (%d)" % len(want))
    fails, _, _, _ = validate([json.dumps(o) for o in ca], [json.dumps(o) for o in cb])
    got = set((k, i) for k, i, _ in fails)
    missing = [("%s %d: %s" % (k[0], k[1], v)) for k, v in want.items() if k not in got]
    if missing:
        raise vlib.Infra("binding self-test: corrupted observations were ACCEPTED by TLC: %s" % missing)
    return len(want)


# ---------------------------------------------------------------- main

def load_cases(path):
    return [l for l in open(path).read().split("\n") if l.strip()]


def strip_case(line, keep):
    o = json.loads(line)
    return json.dumps({k: o[k] for k in keep}, separators=(",", ":"))


def describe(kind, obs, det):
    d = det.get((kind, obs["id"]), {})
    r = {"kind": kind, "id": obs["id"], "text": d.get("text"), "code_accepted": obs["obs"]["ok"]}
    if kind == "amt":
        r["abstract_tokens"] = obs["tok"]
        r["code_value"] = d.get("value")
    else:
        r["abstract_shape"] = obs["shape"]
        r["observed"] = obs["obs"]
        if d.get("reencoded"):
            r["reencoded"] = d["reencoded"]
        if d.get("err2"):
            r["roundtrip_error"] = d["err2"]
    if d.get("err"):
        r["code_error"] = d["err"]
    return r


def replay(path):
    art = json.load(open(path))
    binp = vlib.go_build("c20", "c20")
    a = [json.dumps({"id": c["id"], "tok": c["abstract_tokens"]}) for c in art["cases"] if c["kind"] == "amt"]
    b = [json.dumps({"id": c["id"], "shape": c["abstract_shape"]}) for c in art["cases"] if c["kind"] == "batch"]
    d = vlib.scratch("c20-")
    try:
        obs_a, obs_b, det = run_harness(binp, d, a, b)
        fails, _, _, _ = validate(obs_a, obs_b)
    finally:
        shutil.rmtree(d, ignore_errors=True)
    cls = {(k, i): c for k, i, c in fails}
    for l in obs_a:
        o = json.loads(l)
        dd = det[("amt", o["id"])]
        print("amt   %-8d %-28r code: %s  TLC: %s" % (o["id"], dd["text"], dd.get("value") if o["obs"]["ok"]
              else "rejected", cls.get(("amt", o["id"]), "pass")))
    for l in obs_b:
        o = json.loads(l)
        dd = det[("batch", o["id"])]
        print("batch %-8d code: %s  TLC: %s\n      %s" % (o["id"], "accepted" if o["obs"]["ok"] else
              "rejected (%s)" % dd.get("err"), cls.get(("batch", o["id"]), "pass"), dd["text"][:400]))
    if fails:
        vlib.violation(PID, path)
        return 1
    print("C20 replay: all %d cases pass" % (len(obs_a) + len(obs_b)))
    return 0


def main():
    if "--replay" in sys.argv:
        return replay(sys.argv[sys.argv.index("--replay") + 1])
    t0 = time.time()
    tier = vlib.tier()
    p = PARAMS[tier]
    rng = random.Random(vlib.seed() * 1000003 + 20)
    binp = vlib.go_build("c20", "c20")

    # 1. exhaustive enumeration + consistency of the specification + export.
    #    One worker: the state graph is flat (one state per case) and TLC evaluates the constant
    #    case tables once per worker.
    mc = vlib.tlc("MC_Codec", cfg=p["cfg"], workers=1, timeout=p["mc_timeout"], keep=True, deadlock=False)
    work = vlib.scratch("c20-")
    try:
        if not mc.ok:
            raise vlib.Infra("MC_Codec: the specification is inconsistent or TLC failed (%s)\n%s"
                             % (mc.violation or mc.error, mc.out[-4000:]))
        cases_a = load_cases(os.path.join(mc.dir, "cases_amt.ndjson"))
        cases_b = load_cases(os.path.join(mc.dir, "cases_batch.ndjson"))
    finally:
        if getattr(mc, "dir", None):
            shutil.rmtree(mc.dir, ignore_errors=True)
    try:
        m = re.search(r'<<"CASES_AMT", (\d+)>>', mc.out), re.search(r'<<"CASES_BATCH", (\d+)>>', mc.out)
        if not (m[0] and m[1]) or int(m[0].group(1)) != len(cases_a) or int(m[1].group(1)) != len(cases_b):
            raise vlib.Infra("MC_Codec export incomplete")
        if mc.distinct != len(cases_a) + len(cases_b):
            raise vlib.Infra("MC_Codec: %d states for %d cases" % (mc.distinct, len(cases_a) + len(cases_b)))
        spec_accept = sum(1 for l in cases_a if '"exp_ok":true' in l) + \
            sum(1 for l in cases_b if '"canonical":true' in l)

        # 2. seeded extra cases in the same abstract format; replay everything into the real code
        tickers = known_tickers()
        extra_a = gen_amounts(rng, p["rnd_amt"], 1000001)
        extra_b = gen_batches(rng, p["rnd_batch"], 2000001, tickers)
        in_a = [strip_case(l, ("id", "tok")) for l in cases_a] + [json.dumps(c, separators=(",", ":")) for c in extra_a]
        in_b = [strip_case(l, ("id", "shape")) for l in cases_b] + [json.dumps(c, separators=(",", ":")) for c in extra_b]
        t1 = time.time()
        obs_a, obs_b, det = run_harness(binp, work, in_a, in_b)
        t2 = time.time()

        # 3. TLC decides
        fails, nval = validate_all(obs_a, obs_b, p["chunk"])
        t3 = time.time()
        if nval != len(obs_a) + len(obs_b):
            raise vlib.Infra("validated %d of %d lines" % (nval, len(obs_a) + len(obs_b)))
        failed = {(k, i): c for k, i, c in fails}
        n_self = selftest(obs_a, obs_b, failed)

        by_id = {}
        need = set(failed)
        for kind, lines in (("amt", obs_a), ("batch", obs_b)):
            for l in lines:
                i = int(l[6:l.index(",")])
                if (kind, i) in need:
                    by_id[(kind, i)] = json.loads(l)

        # 4. known findings: class signature + accepted by TLC with the deviation switched on
        open_f = vlib.open_findings(PID)

        def listed(cls):
            dev = CLASS_DEV.get(cls)
            for f in open_f:
                sig = f.get("signature") or {}
                if dev and (f.get("deviation") == dev or sig.get("class") == cls or f.get("class") == cls):
                    return f
            return None

        by_class = {}
        for key, cls in sorted(failed.items()):
            by_class.setdefault(cls, []).append(key)
        explained, unexplained = {}, {}
        for cls, keys in by_class.items():
            (explained if listed(cls) else unexplained)[cls] = keys
        if explained:
            devs = sorted(CLASS_DEV[c] for c in explained)
            la = [json.dumps(by_id[k]) for c in explained for k in explained[c] if k[0] == "amt"]
            lb = [json.dumps(by_id[k]) for c in explained for k in explained[c] if k[0] == "batch"]
            still, _, _, _ = validate(la, lb, dev=devs)
            if still:
                raise vlib.Infra("deviation %s does not explain its own class: %s" % (devs, still[:5]))

        rc, nviol = 0, 0
        for cls, keys in sorted(explained.items()):
            ex = describe(keys[0][0], by_id[keys[0]], det)
            eg = ("%r -> %s" % (ex["text"], ex.get("code_value"))) if keys[0][0] == "amt" else ex["text"][:300]
            vlib.known(PID, "deviation=%s class=%s %s (%d cases; e.g. %s)"
                       % (CLASS_DEV[cls], cls, CLASS_WHAT[cls], len(keys), eg))
        if unexplained:
            art = {
                "property": PID,
                "what": "the real code disagrees with tla/Codec.tla (classes computed by TLC, Trace_Codec.tla)",
                "classes": {c: {"count": len(k), "what": CLASS_WHAT.get(c, c),
                                "deviation_if_listed_as_known_finding": CLASS_DEV.get(c)}
                            for c, k in unexplained.items()},
                "cases": [dict(describe(k[0], by_id[k], det), **{"class": c})
                          for c, ks in sorted(unexplained.items()) for k in ks[:25]],
                "how_to_replay": "python3 checks/c20.py --replay <this file>",
            }
            path = vlib.save_replay(PID, "violation-%s-seed%d.json" % (tier, vlib.seed()), art)
            vlib.violation(PID, path)
            for c, k in sorted(unexplained.items()):
                e = art["cases"][[x["class"] for x in art["cases"]].index(c)]
                print("  class %-24s %5d cases, e.g. %s" % (c, len(k), json.dumps(e["text"])[:260]))
            nviol = sum(len(k) for k in unexplained.values())
            rc = 1

        code_accept = sum(1 for l in obs_a if '"obs":{"ok":true' in l) + \
            sum(1 for l in obs_b if '"obs":{"ok":true' in l)
        distinct = len(set(vlib.digest(json.loads(l).get("tok") or json.loads(l).get("shape"))
                           for l in obs_a + obs_b if '"obs":{"ok":true' in l))
        samples = []
        for kind, lines in (("amt", obs_a), ("batch", obs_b)):
            for j in sorted(set([0, len(lines) // 3, (2 * len(lines)) // 3, len(lines) - 1])):
                o = json.loads(lines[j])
                s = describe(kind, o, det)
                s.pop("observed", None)
                s["tlc_verdict"] = failed.get((kind, o["id"]), "pass")
                samples.append(s)
        for key in list(failed)[:2]:
            s = describe(key[0], by_id[key], det)
            s.pop("observed", None)
            s["tlc_verdict"] = failed[key]
            samples.append(s)
        cov = {
            "states": mc.distinct,
            "transitions": mc.generated - mc.distinct,
            "traces_validated_against_impl": nval,
            "samples": samples,
            "exhaustive": True,
            "evaluations": len(obs_a) + len(obs_b),
            "distinct_nontrivial": distinct,
            "rule": "every abstract case inside the cfg bounds (amount menus x junk classes + all strings over "
                    "{0,9,.} up to StrMax; batch shapes differing from the canonical default in <= KAll of 13 "
                    "dimensions or <= KSem of the SemDims dimensions, plus crafted length-accounting shapes) is "
                    "one TLC state; plus seeded random cases. Non-trivial = distinct abstract case that the "
                    "real code ACCEPTED (a value or a decoded batch had to be compared, not just a refusal)",
            "mc_cfg": p["cfg"],
            "mc_wall_s": round(mc.wall, 1),
            "cases": {"mc_amounts": len(cases_a), "mc_batches": len(cases_b), "seeded_amounts": len(extra_a),
                      "seeded_batches": len(extra_b), "accepted_by_spec_in_mc": spec_accept,
                      "accepted_by_code": code_accept},
            "failed_cases": len(failed),
            "failed_by_class": {c: len(k) for c, k in by_class.items()},
            "failed_explained_by_known_deviation": sum(len(k) for k in explained.values()),
            "selftest_corruptions_rejected": n_self,
            "replay_wall_s": round(t2 - t1, 1),
            "validate_wall_s": round(t3 - t2, 1),
        }
        vlib.write_evidence(PID, "model_checking", cov, time.time() - t0, violations=nviol, assumptions=[
            "batch content outside the shape grammar of Codec.tla (arbitrary byte strings) is not generated; "
            "the grammar covers key lists with omissions / duplicates / unknown / case-variant members at all "
            "four object levels, version, ticker, amount and address classes, white space",
            "the rendering of an abstract case to bytes (harness/cmd/c20 render*) is trusted; samples and the "
            "detail file show the rendered text",
            "a representable amount may be refused when it exceeds MaxInt64 or when its whole part is the "
            "empty string; batch level metadata may be refused (the property only says 'exactly or rejected' / "
            "'accepted only if')",
            "an absent transaction metadata member and an explicit null are the same metadata",
            "acceptance of a batch = fat2.NewTransactionBatch on an entry correctly signed (RCD-1) by the input "
            "address at height 300000",
        ])
        print("C20 %s seed=%d: TLC %d states (%.0fs); %d cases replayed into the real code, %d accepted by it; "
              "%d validated by TLC, %d failed (%s), %d explained by known deviations; self-test %d; %.0fs"
              % (tier, vlib.seed(), mc.distinct, mc.wall, len(obs_a) + len(obs_b), code_accept, nval,
                 len(failed), ", ".join("%s: %d" % (c, len(k)) for c, k in sorted(by_class.items())) or "-",
                 sum(len(k) for k in explained.values()), n_self, time.time() - t0))
        return rc
    finally:
        shutil.rmtree(work, ignore_errors=True)


if __name__ == "__main__":
    def _main_with_config():
        import conf
        rc = main()
        n = conf.check("C20")      # defaults the daemon is built with vs. Config.tla
        return 1 if n else rc
    vlib.main(_main_with_config)

"""Signature predicates of the known findings (committed list: /verif/known_findings.json).

A finding explains an issue only if (1) the trace is accepted once the finding's named deviation of the
specification is switched on and (2) the concrete signature below matches the failing step, so that a
different violation of the same property is still reported.
"""
import json


def block_event(run, line):
    """The trace event at 1-based line of the run's trace."""
    try:
        with open(run.trace) as f:
            for i, l in enumerate(f, 1):
                if i == line:
                    return json.loads(l)
    except (OSError, ValueError):
        pass
    return None


def sched_of(run):
    return run.doc.get("sched", {})


def _entries(ev):
    return (ev or {}).get("in", {}).get("entries", [])


def sig_recbyte(run, issue, ev):
    # the failing step names an RCD-e entry whose recovery byte was altered
    return any(e.get("auth") == "RecoveryByteAltered" and e.get("key") == "rcde" and e.get("id", "") in issue[2] for e in _entries(ev))


def sig_spr_id_unbound(run, issue, ev):
    sprs = (ev or {}).get("in", {}).get("spr", {}).get("sprs", [])
    h = (ev or {}).get("h", 0)
    return h >= sched_of(run).get("SprSig", 0) and any(x.get("valid") and x.get("signer") and x.get("signer") != x.get("staker") for x in sprs)


def sig_band_skip(run, issue, ev):
    sch = sched_of(run)
    h = (ev or {}).get("h", 0)
    i = (ev or {}).get("in", {})
    o = (ev or {}).get("obs", {})
    return (sch.get("V20", 0) <= h < sch.get("V202", 0) and i.get("opr", {}).get("winners") and i.get("spr", {}).get("present")
            and not o.get("rated") and i["opr"].get("rates") != i["spr"].get("rates"))


def sig_peg_pass(run, issue, ev):
    sch = sched_of(run)
    h = (ev or {}).get("h", 0)
    if not (sch.get("ConvLimit", 0) <= h < sch.get("V20", 0)):
        return False
    # the executing block's held batches are not in ev["in"]; look the batch up in the scenario
    for b in run.doc.get("blocks", []):
        for e in b.get("entries", []):
            cv = [t.get("conv") for t in e.get("txs", []) if t.get("conv")]
            if "PEG" in cv and len(cv) > 1 and b["h"] < h:
                return True
    return False


def sig_unconv_legacy(run, issue, ev):
    return (ev or {}).get("h", 0) < sched_of(run).get("V20", 0) and "unconvertible" in issue[2]


SIGS = {
    "C17-unconvertible-pending-forever-legacy": sig_unconv_legacy,
    "C16-peg-pass-takes-all-txs": sig_peg_pass, "C04-peg-pass-takes-all-txs": sig_peg_pass, "C03-peg-pass-takes-all-txs": sig_peg_pass,
    "C11-band-error-skips-block": sig_band_skip, "C13-band-error-skips-block": sig_band_skip,
    "C04-band-error-skips-block": sig_band_skip, "C12-band-error-skips-block": sig_band_skip,
    "C11-spr-id-unbound": sig_spr_id_unbound,
    "C05-rcde-recovery-byte": sig_recbyte,
}

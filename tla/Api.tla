-------------------------------- MODULE Api --------------------------------
(***************************************************************************)
(* C18: the sync goroutine and API reader goroutines share two pieces of   *)
(* memory: the synced height (Pegnetd.Sync.Synced) and the rolling-average *)
(* cache (LastAveragesHeight / LastAveragesData).  This module interleaves *)
(* the sync loop with readers at the granularity of the implementation's   *)
(* critical sections:                                                      *)
(*   cache call  = Check (compare height) ; Mutate (shared data) ; Publish *)
(*   block       = Begin ; [cache call] ; Bump / Commit                    *)
(* Locked = TRUE makes a cache call one atomic step (the mutex repair);    *)
(* PublishEarly = TRUE bumps the in-memory height before COMMIT (the       *)
(* implementation as found), FALSE after it (repair).                      *)
(* Properties: LedgerUnaffected (every window the sync loop priced with is *)
(* the design window whatever the readers did), RespCommitted (a reader    *)
(* never sees a height that is not committed), NoTornCache.                *)
(***************************************************************************)
EXTENDS Integers, Sequences, FiniteSets, TLC
CONSTANTS N, P, Readers, Locked, PublishEarly, MaxCalls, MaxFails, PublishOnFail, PublishOnReadFail

VARIABLES rated, cache, c, spc, loc, committed, memSynced, out, resp, calls, fails
vars == <<rated, cache, c, spc, loc, committed, memSynced, out, resp, calls, fails>>
Procs == {"sync"} \cup Readers

L == INSTANCE Ledger WITH
  NZero <- 0, NAdd <- LAMBDA a, b : a + b, NSub <- LAMBDA a, b : a - b, NLeq <- LAMBDA a, b : a <= b,
  NMul <- LAMBDA a, b : a * b, NDiv <- LAMBDA a, b : a \div b, NOfNat <- LAMBDA n : n,
  NFitsI64 <- LAMBDA a : TRUE, NFitsU64 <- LAMBDA a : TRUE,
  Addrs <- {"a"}, Assets <- {"PEG"}, Act <- LAMBDA k : 0, AvgPeriod <- P, SnapRate <- 1000,
  StakeBank <- 1, BankBase <- 1, DevUnit <- 1, DevPct <- <<>>, DevAddr <- LAMBDA i : "a",
  MintAmt <- LAMBDA t : 0, Deviations <- {}

SOf == [rates |-> [h \in {i \in 1..N : rated[i]} |-> [PEG |-> 1]]]
Lr(h) == L!LastRated(SOf, h)

\* the data a call leaves behind when it starts from shared data d at recorded height kh and is asked for r
MutateData(kh, d, r) ==
  IF kh + 1 = r THEN (IF rated[r] THEN Append(L!TrimTo(d, P), r) ELSE L!TrimTo(d, P))      \* works on the SHARED slices
  ELSE L!AvgWindow(SOf, r)                                                                \* reload (repaired: uninterrupted window)

Idle == [pc |-> "idle", r |-> 0]
Init == /\ rated \in [1..N -> BOOLEAN] /\ cache = [h |-> 0, d |-> <<>>] /\ c = 0 /\ spc = "idle"
        /\ loc = [p \in Procs |-> Idle] /\ committed = 0 /\ memSynced = 0 /\ out = <<>> /\ resp = <<>> /\ calls = 0 /\ fails = 0

\* ---- the cache function
Enter(p, r) == IF Locked
               THEN /\ loc' = [loc EXCEPT ![p] = [pc |-> "done", r |-> r]]
                    /\ cache' = IF cache.h = r THEN cache ELSE [h |-> r, d |-> MutateData(cache.h, cache.d, r)]
               ELSE /\ loc' = [loc EXCEPT ![p] = [pc |-> "check", r |-> r]] /\ UNCHANGED cache
Check(p) == /\ loc[p].pc = "check"
            /\ loc' = [loc EXCEPT ![p].pc = IF cache.h = loc[p].r THEN "done" ELSE "mutate"]
            /\ UNCHANGED cache
Mutate(p) == /\ loc[p].pc = "mutate"
             /\ cache' = [cache EXCEPT !.d = MutateData(cache.h, cache.d, loc[p].r)]       \* height not yet published
             /\ loc' = [loc EXCEPT ![p].pc = "publish"]
Publish(p) == /\ loc[p].pc = "publish"
              /\ cache' = [cache EXCEPT !.h = loc[p].r]
              /\ loc' = [loc EXCEPT ![p].pc = "done"]
CacheStep(p) == (Check(p) \/ Mutate(p) \/ Publish(p)) /\ UNCHANGED <<rated, c, spc, committed, memSynced, out, resp, calls, fails>>

\* ---- sync loop
\* the height applied next is the in-memory height + 1 (d.Sync.Synced + 1), not a loop counter
SyncBegin == /\ spc = "idle" /\ ~(PublishEarly /\ memSynced # committed) /\ memSynced < N /\ c' = memSynced + 1
             /\ IF rated[memSynced + 1] /\ Lr(memSynced + 1) > 0
                  THEN /\ spc' = "avg" /\ Enter("sync", Lr(memSynced + 1))
                  ELSE /\ spc' = "apply" /\ UNCHANGED <<loc, cache>>
             /\ UNCHANGED <<rated, committed, memSynced, out, resp, calls, fails>>
SyncAvgDone == /\ spc = "avg" /\ loc["sync"].pc = "done"
               /\ out' = Append(out, [r |-> loc["sync"].r, d |-> cache.d])
               /\ loc' = [loc EXCEPT !["sync"] = Idle] /\ spc' = "apply"
               /\ UNCHANGED <<rated, cache, c, committed, memSynced, resp, calls, fails>>
SyncBump == /\ spc = "apply" /\ PublishEarly
            /\ memSynced' = c /\ spc' = "commit"
            /\ UNCHANGED <<rated, cache, c, loc, committed, out, resp, calls, fails>>
SyncCommit == /\ spc = (IF PublishEarly THEN "commit" ELSE "apply")
              /\ committed' = c /\ memSynced' = c /\ spc' = "idle"
              /\ UNCHANGED <<rated, cache, c, loc, out, resp, calls, fails>>
\* COMMIT fails (e.g. SQLITE_BUSY because a reader's cursor is still open): the transaction is gone, the block is
\* retried; the in-memory height must still be the committed one.  PublishOnFail = TRUE models publishing the new
\* height whether or not COMMIT succeeded.
SyncCommitFail == /\ spc = (IF PublishEarly THEN "commit" ELSE "apply") /\ fails < MaxFails
                  /\ fails' = fails + 1 /\ spc' = "idle"
                  /\ memSynced' = IF PublishOnFail THEN c ELSE committed
                  /\ UNCHANGED <<rated, cache, c, loc, committed, out, resp, calls>>

\* ---- readers
ReadSync(p) == /\ loc[p].pc = "idle" /\ calls < MaxCalls
               /\ resp' = Append(resp, [seen |-> memSynced, committed |-> committed]) /\ calls' = calls + 1
               /\ UNCHANGED <<rated, cache, c, spc, loc, committed, memSynced, out, fails>>
RichList(p) == /\ loc[p].pc = "idle" /\ calls < MaxCalls
               /\ LET r == Lr(committed + 1) IN r > 0 /\ Enter(p, r)
               /\ calls' = calls + 1
               /\ UNCHANGED <<rated, c, spc, committed, memSynced, out, resp, fails>>
\* a reader's read of pn_rate fails inside the cache function (Locked only; counted against MaxFails): the request is lost;
\* the shared cache must not keep what was collected so far under the requested height (PublishOnReadFail = TRUE models
\* the deferred publication that ran even when the collection panicked); dropping it makes the next caller reload
RichListFail(p) == /\ Locked /\ loc[p].pc = "idle" /\ calls < MaxCalls /\ fails < MaxFails
                   /\ LET r == Lr(committed + 1) IN
                        /\ r > 0 /\ cache.h # r
                        /\ cache' = IF PublishOnReadFail THEN [h |-> r, d |-> <<>>] ELSE [h |-> 0, d |-> <<>>]
                   /\ calls' = calls + 1 /\ fails' = fails + 1
                   /\ UNCHANGED <<rated, c, spc, loc, committed, memSynced, out, resp>>
ReaderDone(p) == /\ loc[p].pc = "done" /\ loc' = [loc EXCEPT ![p] = Idle]
                 /\ UNCHANGED <<rated, cache, c, spc, committed, memSynced, out, resp, calls, fails>>

Next == SyncBegin \/ SyncAvgDone \/ SyncBump \/ SyncCommit \/ SyncCommitFail
        \/ (\E p \in Procs : CacheStep(p))
        \/ (\E p \in Readers : ReadSync(p) \/ RichList(p) \/ RichListFail(p) \/ ReaderDone(p))
Spec == Init /\ [][Next]_vars

LedgerUnaffected == \A i \in 1..Len(out) : out[i].d = L!AvgWindow(SOf, out[i].r)
RespCommitted == \A i \in 1..Len(resp) : resp[i].seen <= resp[i].committed
\* heights are applied once each, in order: the block being applied is always the one after the last committed
InOrder == spc # "idle" => c = committed + 1
NoTornCache == (\A p \in Procs : loc[p].pc \notin {"mutate", "publish"}) /\ cache.h > 0 /\ rated[cache.h]
                 => cache.d = L!AvgWindow(SOf, cache.h)
=============================================================================

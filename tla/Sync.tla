-------------------------------- MODULE Sync --------------------------------
(***************************************************************************)
(* The pegnetd sync loop (node/sync.go DBlockSync) as a process: one SQL   *)
(* transaction per block, the in-memory height bumped before COMMIT,       *)
(* rollback + retry on failure, crash (SIGKILL) at any point, restart.     *)
(* The block's ledger effects are abstracted to K write units (h, j); the  *)
(* ledger rules themselves are in Ledger.tla / LedgerBlock.tla.            *)
(*                                                                         *)
(* C02: DiskIsPrefix, OnceInOrder, ResumeEq;  C10: the same invariants     *)
(* under transient statement / request faults;  C08: <>(disk.synced = Tip) *)
(***************************************************************************)
EXTENDS Integers, Sequences, FiniteSets, TLC

CONSTANTS Tip,          \* chain length
          K,            \* write units per block
          MaxCrashes, MaxFaults,
          Deviations    \* subset of {"DevWriteOutsideTx", "DevSyncedOutsideTx", "DevMemNotRestored", "DevCommitFailureFatal"}

VARIABLES disk,   \* committed database: [synced, w (set of write units), ver (sequence of heights with a version row)]
          txn,    \* open transaction: staged copy [open, h, n, w, synced, ver]
          mem,    \* in-memory height (Pegnetd.Sync.Synced)
          pc,     \* idle | intx | bumped | ready | down
          crashes, faults
vars == <<disk, txn, mem, pc, crashes, faults>>

NoTxn == [open |-> FALSE, h |-> 0, n |-> 0, w |-> {}, synced |-> 0, ver |-> <<>>]
FullW(s) == {<<i, j>> : i \in 1..s, j \in 1..K}
UpTo(s) == [i \in 1..s |-> i]
RefDisk(s) == [synced |-> s, w |-> FullW(s), ver |-> UpTo(s)]

Init == /\ disk = RefDisk(0) /\ txn = NoTxn /\ mem = 0 /\ pc = "idle" /\ crashes = 0 /\ faults = 0

BeginTx == /\ pc = "idle" /\ mem < Tip
           /\ txn' = [open |-> TRUE, h |-> mem + 1, n |-> 0, w |-> disk.w, synced |-> disk.synced, ver |-> disk.ver]
           /\ pc' = "intx" /\ UNCHANGED <<disk, mem, crashes, faults>>

\* j statements of the block at once (j = 1 in the exhaustive model; the trace spec uses larger j)
StmtMany(j) ==
  /\ pc = "intx" /\ j >= 1 /\ txn.n + j <= K
  /\ LET units == {<<txn.h, i>> : i \in (txn.n + 1)..(txn.n + j)}
         outside == IF "DevWriteOutsideTx" \in Deviations THEN {u \in units : u[2] = 1} ELSE {}
     IN  /\ txn' = [txn EXCEPT !.n = @ + j, !.w = @ \cup units]
         /\ disk' = [disk EXCEPT !.w = @ \cup outside]       \* a write through the pool bypasses the transaction
  /\ UNCHANGED <<mem, pc, crashes, faults>>
Stmt == StmtMany(1)

Bump == /\ pc = "intx" /\ txn.n = K
        /\ mem' = mem + 1 /\ pc' = "bumped" /\ UNCHANGED <<disk, txn, crashes, faults>>

InsertSynced ==
  /\ pc = "bumped"
  /\ IF "DevSyncedOutsideTx" \in Deviations
       THEN /\ disk' = [disk EXCEPT !.synced = mem, !.ver = Append(@, mem)] /\ UNCHANGED txn
       ELSE /\ txn' = [txn EXCEPT !.synced = mem, !.ver = Append(@, mem)] /\ UNCHANGED disk
  /\ pc' = "ready" /\ UNCHANGED <<mem, crashes, faults>>

Commit == /\ pc = "ready"
          /\ disk' = [synced |-> IF "DevSyncedOutsideTx" \in Deviations THEN disk.synced ELSE txn.synced,
                      w |-> txn.w \cup disk.w,
                      ver |-> IF "DevSyncedOutsideTx" \in Deviations THEN disk.ver ELSE txn.ver]
          /\ txn' = NoTxn /\ pc' = "idle" /\ UNCHANGED <<mem, crashes, faults>>

\* transient failure of a statement / an upstream request while the block is being applied
FailInBlock == /\ pc = "intx" /\ faults < MaxFaults
               /\ txn' = NoTxn /\ pc' = "idle" /\ faults' = faults + 1
               /\ UNCHANGED <<disk, mem, crashes>>
FailInsertSynced == /\ pc = "bumped" /\ faults < MaxFaults
                    /\ mem' = IF "DevMemNotRestored" \in Deviations THEN mem ELSE mem - 1
                    /\ txn' = NoTxn /\ pc' = "idle" /\ faults' = faults + 1
                    /\ UNCHANGED <<disk, crashes>>
\* a failed COMMIT: intended = roll back and retry; the implementation calls Rollback on a
\* finished transaction and dies (deviation DevCommitFailureFatal): a supervisor restarts it
FailCommit == /\ pc = "ready" /\ faults < MaxFaults
              /\ txn' = NoTxn /\ faults' = faults + 1
              /\ IF "DevCommitFailureFatal" \in Deviations
                   THEN pc' = "down" /\ UNCHANGED mem
                   ELSE pc' = "idle" /\ mem' = mem - 1
              /\ UNCHANGED <<disk, crashes>>

Crash == /\ pc # "down" /\ crashes < MaxCrashes
         /\ txn' = NoTxn /\ pc' = "down" /\ crashes' = crashes + 1
         /\ UNCHANGED <<disk, mem, faults>>          \* SQLite commit is atomic: disk untouched
Restart == /\ pc = "down"
           /\ mem' = disk.synced /\ pc' = "idle" /\ UNCHANGED <<disk, txn, crashes, faults>>

\* at the tip the daemon polls factomd and finds nothing to do
Idle == pc = "idle" /\ mem >= Tip /\ UNCHANGED vars

Progress == BeginTx \/ Stmt \/ Bump \/ InsertSynced \/ Commit \/ Restart
Next == Progress \/ FailInBlock \/ FailInsertSynced \/ FailCommit \/ Crash \/ Idle
Spec == Init /\ [][Next]_vars /\ WF_vars(Progress)

\* ---- properties
DiskIsPrefix == disk.w = FullW(disk.synced)                 \* exactly the effects of blocks 1..synced, nothing else
OnceInOrder  == disk.ver = UpTo(disk.synced)                \* one version row per height, in order, no gap
MemNotBehind == pc # "down" => mem \in {disk.synced, disk.synced + 1}
ResumeEq     == disk.synced = Tip => disk = RefDisk(Tip)
TypeOK == pc \in {"idle", "intx", "bumped", "ready", "down"} /\ disk.synced \in 0..Tip
Live == <>[](disk.synced = Tip)
=============================================================================

------------------------- MODULE Trace_VersionLock -------------------------
(***************************************************************************)
(* C19 trace validation.  Reads the observations recorded from the real    *)
(* code (harness/cmd/c19) and decides every observed start-up verdict with *)
(* the property of VersionLock.tla:                                        *)
(*                                                                         *)
(*     observed refused  <=>  MustRefuse(ghost history, build, forks)      *)
(*     with --no-hf: always accepted                                       *)
(*                                                                         *)
(* The ghost history `by` is rebuilt from the abstract sessions of the     *)
(* line and the observed fact whether a session ran (one-step validation   *)
(* from the observed pre-state); nothing "expected" is read from the file. *)
(* Every session start of a history is itself a checked start-up.          *)
(*                                                                         *)
(* Dev = TRUE re-validates with the deviation DevLegacyBackfillOffByOne:   *)
(* the expected verdict is then the start-up check with the strict         *)
(* comparison, evaluated on the database the history leaves behind.        *)
(***************************************************************************)
EXTENDS Integers, Sequences, FiniteSets, TLC, Json

CONSTANTS Dev,      \* FALSE: the property; TRUE: property weakened by the known deviation
          Block     \* lines handled per step

VL == INSTANCE VersionLock WITH
        MaxSessions <- 0, MaxBlocks <- 0, MaxVersion <- 0, MinForkHeight <- 0, MaxForkHeight <- 0,
        DevLegacyBackfillOffByOne <- Dev, LegacyAnywhere <- TRUE, AllowNoHf <- TRUE,
        SingleTable <- TRUE, ExplainEdge <- TRUE, ExplainZero <- TRUE, ExplainGap <- TRUE,
        hist <- <<>>, by <- <<>>, rows <- <<>>, crows <- <<>>, frows <- <<>>, forks <- {}

Tr == ndJsonDeserialize("c19_obs.ndjson")

VARIABLES l, nbad, nchk

ForkSet(line) == {[h |-> line.forks[i].h, m |-> line.forks[i].m] : i \in 1..Len(line.forks)}

Expected(b, build, F) ==
    IF Dev THEN VL!Startup(VL!DbOf(b), build, F, TRUE)
           ELSE VL!MustRefuse(b, Len(b), build, F)

Fail(line, pos, build, obs, exp, b) ==
    [id |-> line.id, pos |-> pos, build |-> build, refused |-> obs, expected |-> exp, by |-> b]

\* walk the sessions: returns the ghost history and the failed checks
RECURSIVE Walk(_, _, _, _)
Walk(line, i, b, fails) ==
    IF i > Len(line.hist) THEN [by |-> b, fails |-> fails]
    ELSE LET s  == line.hist[i]
             o  == line.obs.sess[i]
             nb == IF o.ran THEN b \o [k \in 1..s.n |-> s.v] ELSE b
         IN  IF s.v = -1
             THEN \* a build predating version tracking has no start-up check
                  Walk(line, i + 1, nb,
                       IF o.ran /\ ~o.refused THEN fails
                       ELSE fails \cup {Fail(line, i, -1, o.refused, FALSE, b)})
             ELSE LET exp == Expected(b, s.v, ForkSet(line))
                      ok  == /\ o.refused = exp
                             /\ o.nohf # "ref"                              \* --no-hf never refuses
                             /\ o.ran = (~o.refused \/ (s.force /\ o.nohf = "acc"))
                  IN  Walk(line, i + 1, nb,
                           IF ok THEN fails ELSE fails \cup {Fail(line, i, s.v, o.refused, exp, b)})

LineFails(line) ==
    IF Len(line.obs.sess) # Len(line.hist) \/ Len(line.obs.final) # Len(line.builds)
    THEN {Fail(line, 0, -1, FALSE, FALSE, <<>>)}            \* malformed observation
    ELSE LET w == Walk(line, 1, <<>>, {})
             F == ForkSet(line)
         IN  w.fails \cup
             {Fail(line, 100 + j, line.obs.final[j].build, line.obs.final[j].refused,
                   Expected(w.by, line.obs.final[j].build, F), w.by) :
                j \in {k \in 1..Len(line.obs.final) :
                        LET f == line.obs.final[k] IN
                        ~ (/\ f.build = line.builds[k]
                           /\ f.refused = Expected(w.by, f.build, F)
                           /\ f.nohf # "ref"
                           /\ (f.refused => f.nohf = "acc"))}}

Checks(line) == Cardinality({i \in 1..Len(line.hist) : line.hist[i].v >= 0}) + Len(line.builds)

RECURSIVE SumChecks(_, _)
SumChecks(a, b) == IF a > b THEN 0 ELSE Checks(Tr[a]) + SumChecks(a + 1, b)

Min2(a, b) == IF a < b THEN a ELSE b

Init == l = 1 /\ nbad = 0 /\ nchk = 0

\* one step validates a block of lines; the failed checks of the block are printed as JSON
\* (kept out of the state, so that an error trace stays small)
Next ==
    /\ l <= Len(Tr)
    /\ LET hi == Min2(l + Block - 1, Len(Tr))
           f  == UNION {LineFails(Tr[k]) : k \in l..hi}
       IN
        /\ (f = {} \/ PrintT(<<"C19BAD", ToJson(f)>>))
        /\ l' = hi + 1
        /\ nbad' = nbad + Cardinality(f)
        /\ nchk' = nchk + SumChecks(l, hi)

Done == l > Len(Tr)

\* acceptance: at the end of the file no check has failed (a summary is printed for the driver)
Accepted ==
    Done => /\ PrintT(<<"C19SUMMARY", ToJson([lines |-> Len(Tr), checks |-> nchk, failed |-> nbad])>>)
            /\ nbad = 0
=============================================================================

---------------------------- MODULE VersionLock ----------------------------
(***************************************************************************)
(* C19  Version lock.                                                      *)
(*                                                                         *)
(* "At start-up the daemon refuses a database if and only if some block at *)
(*  or above a hard-fork height was synced by a build older than that fork *)
(*  requires (or by a build predating version tracking), or some block in  *)
(*  it was synced by a newer build than the one starting (downgrade).      *)
(*  Databases synced entirely with adequate builds are always accepted."   *)
(*                                                                         *)
(* The database as the daemon sees it: `synced` (pn_metadata['synced'],    *)
(* here Len(by); 0 = row absent = fresh database) and `rows`               *)
(* (pn_sync_version: height -> version).  Ghost: `by` = which build really *)
(* synced which height (-1 = a build predating version tracking, which     *)
(* writes pn_metadata but no pn_sync_version row).                         *)
(*                                                                         *)
(* The PROPERTY is `MustRefuse`, a predicate over the ghost history only.  *)
(* `Startup` is the intended design of the start-up check; it sees only    *)
(* the database.  `StartupAsCoded` mirrors node/pegnet/admin.go            *)
(* CheckHardForks statement by statement, including the fact that its      *)
(* legacy back-fill is persisted (autocommit, outside any transaction) on  *)
(* every start, refused or not, and that re-inserting an existing height   *)
(* fails on the PRIMARY KEY and is ignored.                                *)
(***************************************************************************)
EXTENDS Integers, Sequences, FiniteSets, TLC

CONSTANTS
    MaxSessions,        \* bound: sessions per history
    MaxBlocks,          \* bound: blocks per session
    MaxVersion,         \* sync versions are -1..MaxVersion, builds that check are 0..MaxVersion
    MinForkHeight,      \* non-trivial forks are placed in MinForkHeight..MaxForkHeight
    MaxForkHeight,
    DevLegacyBackfillOffByOne,  \* deviation: back-fill only if synced > fork height (code) instead of >=
    LegacyAnywhere,     \* TRUE: a pre-tracking build may run again after tracking began
    AllowNoHf,          \* TRUE: operator may pass --no-hf, a refused session still runs
    SingleTable         \* TRUE: only one (trivial) fork table; used to export the histories

VARIABLES
    hist,       \* ghost: sequence of sessions [v, n, nohf]
    by,         \* ghost: by[h] = sync version of the build that synced height h (1..synced)
    rows,       \* pn_sync_version as written by block commits only (intended db)
    crows,      \* pn_sync_version as the code leaves it (commits + persisted back-fill, `>`)
    frows,      \* same for the code with the proposed fix (`>=`)
    forks       \* the Hardforks table of every build in this history (set of [h, m])

vars == <<hist, by, rows, crows, frows, forks>>

Builds   == 0..MaxVersion
BaseFork == [h |-> 0, m |-> -1]          \* first entry of the real table: never refuses
EmptyFn  == [x \in {} |-> 0]

SetMin(S) == CHOOSE x \in S : \A y \in S : x <= y
SetMax(S) == CHOOSE x \in S : \A y \in S : x >= y

(***************************************************************************)
(* THE PROPERTY: pure predicate over the ghost history.                    *)
(***************************************************************************)
MustRefuse(b, synced, build, Forks) ==
    \/ \E f \in Forks : \E h \in 1..synced : h >= f.h /\ b[h] < f.m
    \/ \E h \in 1..synced : b[h] > build

(***************************************************************************)
(* Intended design of the start-up check.  db = [synced, rows].            *)
(* Heights that were synced but have no row were synced before tracking    *)
(* began; every fork at or below the highest such height gets a -1 marker  *)
(* (the "legacy back-fill").  strict = TRUE is the deviation               *)
(* DevLegacyBackfillOffByOne: the marker is only set if synced > fork      *)
(* height, so a legacy database synced exactly to a fork height escapes.   *)
(***************************************************************************)
Untracked(db) == {h \in 1..db.synced : h \notin DOMAIN db.rows}
LegacyTop(db) == IF Untracked(db) = {} THEN 0 ELSE SetMax(Untracked(db))

Markers(db, Forks, strict) ==
    {f.h : f \in {g \in Forks : /\ LegacyTop(db) >= 1
                               /\ g.h <= LegacyTop(db)
                               /\ (strict => db.synced > g.h)}}

VersionsFrom(db, marks, h) ==
    {db.rows[x] : x \in {y \in DOMAIN db.rows : y >= h}}
        \cup (IF \E k \in marks : k >= h THEN {-1} ELSE {})

Startup(db, build, Forks, strict) ==
    LET marks == Markers(db, Forks, strict) IN
    \/ \E f \in Forks : \E v \in VersionsFrom(db, marks, f.h) : v < f.m
    \/ \E h \in DOMAIN db.rows : db.rows[h] > build

StartupIntended(db, build, Forks) == Startup(db, build, Forks, FALSE)
StartupRefuses(db, build, Forks)  == Startup(db, build, Forks, DevLegacyBackfillOffByOne)

\* the database a history leaves behind (used by the trace spec)
DbOf(b) == [synced |-> Len(b),
            rows   |-> [h \in {x \in 1..Len(b) : b[x] >= 0} |-> b[h]]]

(***************************************************************************)
(* CheckHardForks as coded (admin.go:128-181).  r = pn_sync_version.       *)
(*   minSynced := LowestSynced   (0 for an empty table)                    *)
(*   bs := SelectSynced          (nil iff nothing was ever synced)         *)
(*   if bs != nil && bs.Synced > minSynced:                                *)
(*       for each fork: if bs.Synced > fork.h: INSERT (fork.h,-1), error   *)
(*       (PRIMARY KEY) ignored -- executed on p.DB, i.e. autocommit        *)
(*   top := HighestSynced                                                  *)
(*   for each fork with fork.h <= top: MIN(version) over height >= fork.h  *)
(*       (-1 if none) < fork.m  -> refuse                                  *)
(*   PegnetdSyncVersion < MAX(version) over all rows (-1 if none) -> refuse*)
(***************************************************************************)
LowestRow(r)  == IF DOMAIN r = {} THEN 0 ELSE SetMin(DOMAIN r)
HighestRow(r) == IF DOMAIN r = {} THEN 0 ELSE SetMax(DOMAIN r)
MinVersionFrom(r, h) ==
    LET S == {r[x] : x \in {y \in DOMAIN r : y >= h}} IN IF S = {} THEN -1 ELSE SetMin(S)
MaxVersionFrom(r, h) ==
    LET S == {r[x] : x \in {y \in DOMAIN r : y >= h}} IN IF S = {} THEN -1 ELSE SetMax(S)

CodedBackfill(r, synced, Forks, strict) ==
    IF synced > LowestRow(r)
    THEN LET hs == {f.h : f \in {g \in Forks :
                        IF strict THEN synced > g.h ELSE synced >= g.h}} \ DOMAIN r
         IN  [h \in DOMAIN r \cup hs |-> IF h \in DOMAIN r THEN r[h] ELSE -1]
    ELSE r

CodedCheck(r, build, Forks) ==
    \/ \E f \in Forks : f.h <= HighestRow(r) /\ MinVersionFrom(r, f.h) < f.m
    \/ build < MaxVersionFrom(r, 0)

StartupAsCoded(r, synced, build, Forks, strict) ==
    LET r2 == CodedBackfill(r, synced, Forks, strict)
    IN  [refuse |-> CodedCheck(r2, build, Forks), rows |-> r2]

(***************************************************************************)
(* State machine: histories of sessions.                                   *)
(***************************************************************************)
NonBase == [h : MinForkHeight..MaxForkHeight, m : 0..MaxVersion]
\* the base entry plus one or two further forks ({a,a} = {a})
ForkTables == {{BaseFork, a, b} : a \in NonBase, b \in NonBase}

Db == [synced |-> Len(by), rows |-> rows]

Repeat(v, n) == [i \in 1..n |-> v]
AddRows(r, from, n, v) ==
    [h \in DOMAIN r \cup ((from + 1)..(from + n)) |-> IF h \in DOMAIN r THEN r[h] ELSE v]

Init ==
    /\ hist = <<>>
    /\ by = <<>>
    /\ rows = EmptyFn
    /\ crows = EmptyFn
    /\ frows = EmptyFn
    /\ forks \in (IF SingleTable THEN {{BaseFork}} ELSE ForkTables)

\* a build predating version tracking: no start-up check, no rows
LegacySession(n) ==
    /\ Len(hist) < MaxSessions
    /\ LegacyAnywhere \/ DOMAIN rows = {}
    /\ hist' = Append(hist, [v |-> -1, n |-> n, nohf |-> FALSE])
    /\ by' = by \o Repeat(-1, n)
    /\ UNCHANGED <<rows, crows, frows, forks>>

\* a build with version tracking: start-up check, then n block commits, each
\* writing (height, v) in the block's transaction (InsertSynced)
TrackedSession(v, n) ==
    /\ Len(hist) < MaxSessions
    /\ LET refused == StartupRefuses(Db, v, forks) IN
        /\ AllowNoHf \/ ~refused
        /\ hist' = Append(hist, [v |-> v, n |-> n, nohf |-> refused])
    /\ by' = by \o Repeat(v, n)
    /\ rows' = AddRows(rows, Len(by), n, v)
    /\ crows' = AddRows(CodedBackfill(crows, Len(by), forks, TRUE), Len(by), n, v)
    /\ frows' = AddRows(CodedBackfill(frows, Len(by), forks, FALSE), Len(by), n, v)
    /\ UNCHANGED forks

Next ==
    \/ \E n \in 1..MaxBlocks : LegacySession(n)
    \/ \E v \in Builds, n \in 0..MaxBlocks : TrackedSession(v, n)

Spec == Init /\ [][Next]_vars

(***************************************************************************)
(* Invariants.                                                             *)
(***************************************************************************)
TypeOK ==
    /\ Len(hist) <= MaxSessions
    /\ \A h \in DOMAIN rows : h \in 1..Len(by) /\ rows[h] = by[h]
    /\ \A h \in 1..Len(by) : by[h] >= 0 => h \in DOMAIN rows

\* the property: the intended start-up check decides exactly MustRefuse, for every
\* reachable database and every starting build (fails with the deviation switched on)
PropertyInv ==
    \A b \in Builds : StartupRefuses(Db, b, forks) <=> MustRefuse(by, Len(by), b, forks)

----------------------------------------------------------------------------
(* Where does the code differ from the intended design?  Difference classes. *)
(* (verdict vectors over all starting builds, computed once per state)       *)

IntendedV(strict) ==
    LET marks == Markers(Db, forks, strict)
        fp    == \E f \in forks : \E v \in VersionsFrom(Db, marks, f.h) : v < f.m
        mx    == MaxVersionFrom(rows, 0)
    IN  [b \in Builds |-> fp \/ b < mx]

CodeV(r, strict) ==
    LET r2 == CodedBackfill(r, Len(by), forks, strict)
        fp == \E f \in forks : f.h <= HighestRow(r2) /\ MinVersionFrom(r2, f.h) < f.m
        mx == MaxVersionFrom(r2, 0)
    IN  [b \in Builds |-> fp \/ b < mx]

\* the vectors agree with the operators above (checked in the thorough configuration)
VectorsOK ==
    /\ \A b \in Builds : IntendedV(FALSE)[b] = StartupIntended(Db, b, forks)
    /\ \A b \in Builds : IntendedV(TRUE)[b] = Startup(Db, b, forks, TRUE)
    /\ \A b \in Builds : CodeV(crows, TRUE)[b] = StartupAsCoded(crows, Len(by), b, forks, TRUE).refuse
    /\ \A b \in Builds : CodeV(frows, FALSE)[b] = StartupAsCoded(frows, Len(by), b, forks, FALSE).refuse

LegacyPrefixLen == IF \A h \in 1..Len(by) : by[h] = -1 THEN Len(by)
                   ELSE SetMin({h \in 1..Len(by) : by[h] # -1}) - 1
LegacyIsPrefix  == \A h \in 1..Len(by) : by[h] = -1 => h <= LegacyPrefixLen
ForkAtZero      == \E f \in forks : f.h = 0 /\ f.m > -1

\* D1 legacy edge: the legacy prefix ends exactly on a fork height that demands
\*    tracking; the code accepts what must be refused
ClassLegacyEdge(intended, coded) ==
    /\ intended /\ ~coded
    /\ LegacyPrefixLen >= 1
    /\ \E f \in forks : f.h = LegacyPrefixLen /\ f.m > -1
\* D2 fork at the height a fresh database starts from (0): the code counts height 0
\*    itself as synced by a pre-tracking build and refuses what must be accepted
ClassForkAtZero(intended, coded) ==
    /\ ~intended /\ coded
    /\ ForkAtZero
\* D3 untracked gap: a pre-tracking build ran again after tracking began; the code
\*    only notices if a fork height lies inside the gap below the synced height
ClassLegacyGap(intended, coded) ==
    /\ intended /\ ~coded
    /\ ~LegacyIsPrefix

CONSTANTS ExplainEdge, ExplainZero, ExplainGap   \* switch a class off to see a witness
CodeDiffClasses ==
    LET iv == IntendedV(FALSE)
        cv == CodeV(crows, TRUE)
    IN  \A b \in Builds : (cv[b] # iv[b]) =>
            \/ ExplainEdge /\ ClassLegacyEdge(iv[b], cv[b])
            \/ ExplainZero /\ ClassForkAtZero(iv[b], cv[b])
            \/ ExplainGap  /\ ClassLegacyGap(iv[b], cv[b])

\* conformance domain: pre-tracking sessions form a prefix, forks above the start height
InDomain == LegacyIsPrefix /\ ~ForkAtZero

\* inside the domain the single switch explains the code completely ...
DevModelFaithful ==
    InDomain => CodeV(crows, TRUE) = IntendedV(TRUE)
\* ... and the one-character fix (`>=`) makes the code equal to the intended design
FixFaithful ==
    InDomain => CodeV(frows, FALSE) = IntendedV(FALSE)
\* outside the domain the fix removes D1 only
FixDiffClasses ==
    LET iv == IntendedV(FALSE)
        fv == CodeV(frows, FALSE)
    IN  \A b \in Builds : (fv[b] # iv[b]) =>
            \/ ClassForkAtZero(iv[b], fv[b])
            \/ ClassLegacyGap(iv[b], fv[b])

\* All of the above in one invariant that computes every verdict vector once per state
\* (what the driver checks; the name of a failed conjunct is printed)
Named(name, ok) == ok \/ (PrintT(<<"C19INV", name>>) /\ FALSE)
AllInv ==
    LET iv  == IntendedV(FALSE)
        ivd == IntendedV(TRUE)
        cv  == CodeV(crows, TRUE)
        fv  == CodeV(frows, FALSE)
        mr  == [b \in Builds |-> MustRefuse(by, Len(by), b, forks)]
    IN  /\ Named("PropertyInv", (IF DevLegacyBackfillOffByOne THEN ivd ELSE iv) = mr)
        /\ Named("CodeDiffClasses",
                 \A b \in Builds : (cv[b] # iv[b]) =>
                    \/ ExplainEdge /\ ClassLegacyEdge(iv[b], cv[b])
                    \/ ExplainZero /\ ClassForkAtZero(iv[b], cv[b])
                    \/ ExplainGap  /\ ClassLegacyGap(iv[b], cv[b]))
        /\ Named("DevModelFaithful", InDomain => cv = ivd)
        /\ Named("FixFaithful", InDomain => fv = iv)
        /\ Named("FixDiffClasses",
                 \A b \in Builds : (fv[b] # iv[b]) =>
                    \/ ClassForkAtZero(iv[b], fv[b])
                    \/ ClassLegacyGap(iv[b], fv[b]))
=============================================================================

\* export of the conformance domain: histories whose pre-tracking sessions form a
\* prefix (states of the model with a single table), and all fork tables above height 0
CONSTANTS
    MaxSessions = 3
    MaxBlocks = 3
    MaxVersion = 2
    MinForkHeight = 1
    MaxForkHeight = 7
    DevLegacyBackfillOffByOne = FALSE
    LegacyAnywhere = FALSE
    AllowNoHf = TRUE
    SingleTable = TRUE
    ExplainEdge = TRUE
    ExplainZero = TRUE
    ExplainGap = TRUE
INIT Init
NEXT Next
INVARIANTS TypeOK ExportAll
CHECK_DEADLOCK FALSE

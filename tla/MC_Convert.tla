----------------------------- MODULE MC_Convert -----------------------------
(***************************************************************************)
(* Exhaustive check (small integers) of the conversion kernel of           *)
(* Ledger.tla (C07): every combination of amount, spot rates and averages  *)
(* in both pricing eras is an initial state; the properties are state      *)
(* invariants.  Era 0 = before PIP-10 (spot rates), era 1 = PIP-10         *)
(* (source min(spot, average), destination max(spot, average)).            *)
(***************************************************************************)
EXTENDS Integers, Sequences, FiniteSets, TLC
CONSTANTS Amts, Rates

INSTANCE Ledger WITH
  NZero <- 0, NAdd <- LAMBDA x, y : x + y, NSub <- LAMBDA x, y : x - y, NLeq <- LAMBDA x, y : x <= y,
  NMul <- LAMBDA x, y : x * y, NDiv <- LAMBDA x, y : x \div y, NOfNat <- LAMBDA n : n,
  NFitsI64 <- LAMBDA x : TRUE, NFitsU64 <- LAMBDA x : TRUE,
  Addrs <- {"a"}, Assets <- {"PEG", "pUSD"}, Act <- LAMBDA k : IF k = "PIP10" THEN 1 ELSE 0, AvgPeriod <- 2, SnapRate <- 144,
  StakeBank <- 5, BankBase <- 5, DevUnit <- 20, DevPct <- <<100>>, DevAddr <- LAMBDA i : "a",
  MintAmt <- LAMBDA t : 0, Deviations <- {}

VARIABLES era, amt, fr, fa, tr, ta
vars == <<era, amt, fr, fa, tr, ta>>

Init == era \in {0, 1} /\ amt \in Amts /\ fr \in Rates /\ fa \in Rates /\ tr \in Rates /\ ta \in Rates
Next == UNCHANGED vars
Spec == Init /\ [][Next]_vars

C    == Convert(era, amt, fr, fa, tr, ta)
Spot == Convert(0, amt, fr, fa, tr, ta)
Src  == IF era = 1 /\ fa < fr THEN fa ELSE fr
Dst  == IF era = 1 /\ ta > tr THEN ta ELSE tr

\* refused exactly when a rate it needs is zero
RefusedIff == ~C.ok <=> (fr = 0 \/ tr = 0 \/ (era = 1 /\ (fa = 0 \/ ta = 0)))
\* the credited amount is the floor of input x source rate / destination rate
ExactFloor == C.ok => C.v * Dst <= amt * Src /\ amt * Src < (C.v + 1) * Dst
\* the value received (at the spot price of the destination) never exceeds the value given (at the spot price of the source)
ValueNonIncrease == C.ok => C.v * tr <= amt * fr
\* with averaging a conversion never yields more than at the spot rates alone
NeverMoreThanSpot == C.ok => Spot.ok /\ C.v <= Spot.v
\* averaging changes nothing when the averages equal the spot rates
AvgEqualSpotSame == (era = 1 /\ fa = fr /\ ta = tr) => C = Spot
\* converting there and back at unchanged rates never gains
RoundTrip == C.ok => LET b == Convert(era, C.v, tr, ta, fr, fa) IN b.ok /\ b.v <= amt
\* more in never gives less out
Monotone == C.ok => \A a2 \in Amts : a2 <= amt => Convert(era, a2, fr, fa, tr, ta).v <= C.v
\* nothing from nothing, and same asset price in both directions is the identity before PIP-10
ZeroIn == (C.ok /\ amt = 0) => C.v = 0
Identity == (C.ok /\ Src = Dst) => C.v = amt
=============================================================================

---------------------------- MODULE Trace_BankK ----------------------------
(* Conformance of the real PEG bank kernel (conversions.ConversionSupplySet.Payouts, conversions.Refund, called by `vh bankk`   *)
(* on all small request vectors / arguments) with LedgerBlock.PegYields / Refund: one trace line per call, one TLC step per     *)
(* line. The dust of an over-subscribed bank must go to one of the largest requests (the tie-break by entry hash is bound by    *)
(* the chains, not here).                                                                                                      *)
EXTENDS Integers, Sequences, FiniteSets, TLC, Json

INSTANCE LedgerBlock WITH
  NZero <- 0, NAdd <- LAMBDA x, y : x + y, NSub <- LAMBDA x, y : x - y, NLeq <- LAMBDA x, y : x <= y,
  NMul <- LAMBDA x, y : x * y, NDiv <- LAMBDA x, y : x \div y, NOfNat <- LAMBDA n : n,
  NFitsI64 <- LAMBDA x : TRUE, NFitsU64 <- LAMBDA x : TRUE,
  Addrs <- {"a"}, Assets <- {"PEG", "pUSD", "pX"}, Act <- LAMBDA k : 0, AvgPeriod <- 2, SnapRate <- 144,
  StakeBank <- 5, BankBase <- 5, DevUnit <- 20, DevPct <- <<100>>, DevAddr <- LAMBDA i : "a",
  MintAmt <- LAMBDA t : 0, Deviations <- {}

Tr == TLCEval(ndJsonDeserialize("trace.ndjson"))
VARIABLES l, bad
Reqs(e) == [i \in 1..3 |-> [hash |-> "h", hrank |-> i, idx |-> 0, a |-> "a", t |-> "pUSD", amt |-> 0, dst |-> "PEG", want |-> e.w[i]]]
BankAgrees(e) == LET y == PegYields(Reqs(e), e.bank)
                 IN  \E d \in (IF y.top = {} THEN {0} ELSE y.top) :
                       \A i \in 1..3 : e.p[i] = y.base[i] + (IF i = d THEN y.dust ELSE 0)
RefundAgrees(e) == LET q == [a |-> "a", t |-> "pUSD", amt |-> e.amt, dst |-> "PEG"]
                   IN  e.v = Refund(5, q, e.y, [PEG |-> e.pr, pUSD |-> e.ir, pX |-> 0])
Agrees(e) == IF e.k = "bank" THEN BankAgrees(e) ELSE RefundAgrees(e)
Init == l = 1 /\ bad = 0
Next == /\ l <= Len(Tr)
        /\ l' = l + 1
        /\ bad' = IF Agrees(Tr[l]) THEN bad
                  ELSE IF bad < 5 /\ PrintT("ISSUE " \o ToJson(Tr[l])) THEN bad + 1 ELSE bad + 1
Spec == Init /\ [][Next]_<<l, bad>>
Report == l = Len(Tr) + 1 => PrintT(<<"DONE", Len(Tr), bad>>)
=============================================================================

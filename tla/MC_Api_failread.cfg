SPECIFICATION Spec
CONSTANTS N = 4  P = 3  Locked = TRUE  PublishEarly = FALSE  MaxCalls = 2  MaxFails = 1  PublishOnFail = FALSE  PublishOnReadFail = TRUE  Readers = {"r1", "r2"}
INVARIANTS LedgerUnaffected RespCommitted NoTornCache InOrder
CHECK_DEADLOCK FALSE

\* the deviation switched on: TLC must find the legacy-edge counterexample
CONSTANTS
    MaxSessions = 3
    MaxBlocks = 3
    MaxVersion = 2
    MinForkHeight = 0
    MaxForkHeight = 7
    DevLegacyBackfillOffByOne = TRUE
    LegacyAnywhere = TRUE
    AllowNoHf = TRUE
    SingleTable = FALSE
    ExplainEdge = TRUE
    ExplainZero = TRUE
    ExplainGap = TRUE
INIT Init
NEXT Next
INVARIANTS TypeOK PropertyInv
CHECK_DEADLOCK FALSE

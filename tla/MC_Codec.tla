------------------------------ MODULE MC_Codec ------------------------------
(***************************************************************************)
(* Exhaustive enumeration of the abstract cases of C20 within the bounds   *)
(* given by the CONSTANTS, internal consistency invariants of Codec.tla,   *)
(* and the export of every case (with the spec's verdict) as NDJSON for    *)
(* the replay into the real code (harness/cmd/c20).                        *)
(*                                                                         *)
(* The state graph is flat on purpose: one initial state per case, the     *)
(* invariants are the case analysis.                                       *)
(***************************************************************************)
EXTENDS Codec, Json

CONSTANTS
  StrMax,     \* all strings over {0, 9, .} up to this length
  KAll,       \* batch shapes: at most KAll dimensions differ from the canonical default
  KSem,       \* ... or at most KSem of the dimensions in SemDims
  SemDims,    \* subset of AllDims
  BigMenu     \* BOOLEAN: larger amount menus

SX == INSTANCE SequencesExt

-----------------------------------------------------------------------------
(* (a) amounts *)

Nines(n) == [i \in 1..n |-> 9]

Wholes ==
  { <<>>, <<0>>, <<1>>, <<0,0,7>>,
    <<1,8,4,4,6,7,4,4,0,7,3,7>>,              \* 184467440737  = (2^64-1) div 10^8
    <<1,8,4,4,6,7,4,4,0,7,3,8>>,              \* first whole part that cannot fit
    <<9,2,2,3,3,7,2,0,3,6,8>>,                \* 92233720368   = (2^63-1) div 10^8
    <<9,2,2,3,3,7,2,0,3,6,9>>,
    Nines(20) }
  \cup (IF BigMenu
        THEN { <<0>> \o <<1,8,4,4,6,7,4,4,0,7,3,7>>, Zeros(25) \o <<1>>, Zeros(3),
               <<9,2,2,3,3,7,2,0,3,6,8,5,4,7,7,5,8,0,7>>,     \* MaxInt64 as a whole part
               <<9,2,2,3,3,7,2,0,3,6,8,5,4,7,7,5,8,0,8>>,
               TwoTo64, Nines(12), Nines(11), <<1>> \o Zeros(12), Nines(40),
               <<1,8,4,4,6,7,4,4,0,7,3,6>>, <<4,2>> }
        ELSE {})

(* fraction = <<hasDot, digits>> *)
Fracs ==
  { <<FALSE, <<>>>>, <<TRUE, <<>>>>, <<TRUE, <<0>>>>, <<TRUE, <<5>>>>,
    <<TRUE, <<0,0,0,0,0,0,0,1>>>>, <<TRUE, <<0,0,0,0,0,0,0,0,1>>>>,
    <<TRUE, <<9,9,9,9,9,9,9,9>>>>,
    <<TRUE, <<0,9,5,5,1,6,1,5>>>>, <<TRUE, <<0,9,5,5,1,6,1,6>>>>,
    <<TRUE, <<5,4,7,7,5,8,0,7>>>>, <<TRUE, <<5,4,7,7,5,8,0,8>>>> }
  \cup (IF BigMenu
        THEN { <<TRUE, <<9,9,9,9,9,9,9,9,9>>>>, <<TRUE, <<1,2,3,4,5,6,7>>>>,
               <<TRUE, <<0,0,0,0,0,0,0,0>>>>, <<TRUE, <<0,0,0,0,0,0,0,0,0>>>>,
               <<TRUE, <<5,0,0,0,0,0,0,0,0,0>>>>, <<TRUE, <<0,9,5,5,1,6,1,7>>>>,
               <<TRUE, <<1>> \o Zeros(19)>> }
        ELSE {})

JunkClasses == {"none", "minus", "plus", "lspace", "tspace", "ispace", "e5", "x", "0x", "nl", "dot2"}

Compose(w, f, j) ==
  LET core == w \o (IF f[1] THEN <<DOT>> ELSE <<>>) \o f[2]
  IN CASE j = "none"   -> core
       [] j = "minus"  -> <<11>> \o core
       [] j = "plus"   -> <<12>> \o core
       [] j = "lspace" -> <<13>> \o core
       [] j = "tspace" -> core \o <<13>>
       [] j = "ispace" -> w \o <<13>> \o (IF f[1] THEN <<DOT>> ELSE <<>>) \o f[2]
       [] j = "e5"     -> core \o <<14, 5>>
       [] j = "x"      -> core \o <<15>>
       [] j = "0x"     -> <<0, 15>> \o core
       [] j = "nl"     -> core \o <<16>>
       [] j = "dot2"   -> core \o <<DOT, 0>>

MenuAmounts == { Compose(w, f, j) : w \in Wholes, f \in Fracs, j \in JunkClasses }
SmallStrings == UNION { [1..n -> {0, 9, DOT}] : n \in 0..StrMax }
AmtCases == MenuAmounts \cup SmallStrings

-----------------------------------------------------------------------------
(* (b) batch shapes: default shape and, per dimension, the alternatives    *)

Amt(ds)  == [f |-> "int", d |-> ds]
AmtF(f, ds) == [f |-> f, d |-> ds]
I63m1 == <<9,2,2,3,3,7,2,0,3,6,8,5,4,7,7,5,8,0,6>>     \* 2^63 - 2
U64   == <<1,8,4,4,6,7,4,4,0,7,3,7,0,9,5,5,1,6,1,5>>   \* 2^64 - 1
D18   == <<1>> \o Zeros(17)                             \* 10^17, 18 digits

TrK == <<"address", "amount">>
Tr(a, m) == [keys |-> TrK, addr |-> a, amt |-> m]
TrKs(ks, a, m) == [keys |-> ks, addr |-> a, amt |-> m]

DefTKeys == <<"input", "transfers">>
DefIKeys == <<"address", "amount", "type">>
DefTrs   == << Tr("B", Amt(<<1>>)) >>

MkTx(tk, ik, ia, it, am, tr, cv) ==
  [tkeys |-> tk, ikeys |-> ik, iaddr |-> ia, itype |-> it, iamt |-> am, trs |-> tr, conv |-> cv]

DefTx == MkTx(DefTKeys, DefIKeys, "A", "pUSD", Amt(<<1>>), DefTrs, "PEG")

AltBKeys ==
  { <<"transactions", "version">>, <<"version", "transactions", "metadata">>,
    <<"metadata", "version", "transactions">>,
    <<"transactions">>, <<"version">>, <<>>,
    <<"version", "version", "transactions">>, <<"version", "transactions", "transactions">>,
    <<"version", "transactions", "unknown">>, <<"unknown", "version", "transactions">>,
    <<"version", "transactions", "metadata", "metadata">>,
    <<"Version", "transactions">>, <<"version", "TRANSACTIONS">>,
    <<"version", "Version", "transactions">> }
AltVer   == {"0", "2", "str"}
AltWs    == {"spaced"}
AltUkind == {"pad28", "pad13"}
AltFirst == {FALSE}

AltTKeys ==
  { <<"input", "conversion">>, <<"input", "transfers", "conversion">>, <<"input">>,
    <<"transfers">>, <<"conversion">>,
    <<"input", "transfers", "metadata">>, <<"input", "conversion", "metadata">>,
    <<"metadata", "transfers", "input">>, <<"transfers", "input">>, <<"conversion", "input">>,
    <<"input", "input", "transfers">>, <<"input", "transfers", "transfers">>,
    <<"input", "conversion", "conversion">>,
    <<"input", "transfers", "unknown">>, <<"input", "conversion", "unknown">>,
    <<"input", "unknown">>, <<"unknown", "input", "transfers">>,
    <<"input", "transfers", "metadata", "metadata">>,
    <<"INPUT", "transfers">>, <<"input", "Transfers">>, <<"input", "Conversion">>,
    <<"input", "transfers", "Metadata">> }

AltIKeys ==
  { <<"amount", "type", "address">>, <<"address", "amount">>, <<"address", "type">>,
    <<"amount", "type">>, <<>>,
    <<"address", "amount", "type", "unknown">>, <<"unknown", "address", "amount", "type">>,
    <<"address", "amount", "unknown">>,
    <<"address", "address", "amount", "type">>, <<"address", "amount", "amount", "type">>,
    <<"address", "amount", "type", "type">>, <<"address", "amount", "amount">>,
    <<"Address", "amount", "type">>, <<"address", "AMOUNT", "type">>,
    <<"address", "amount", "Type">> }

AltIAddr == {"B", "Z", "BAD"}
AltIType == {"PEG", "pFCT", "pXYZ", "USD", "pusd", "num", "Peg", "esc:pUSD"}       \* esc: the known ticker written with a JSON \\u escape
AltIAmt ==
  { Amt(<<0>>), Amt(<<2>>), Amt(I63m1), Amt(MaxInt64), Amt(TwoTo63), Amt(U64), Amt(TwoTo64),
    Amt(D18),
    AmtF("neg", <<1>>), AmtF("frac", <<1>>), AmtF("quoted", <<1>>), AmtF("exp", <<1>>),
    AmtF("lz", <<1>>), AmtF("neg", <<0>>) }

AltTrs ==
  { <<>>,
    << Tr("B", Amt(<<1>>)), Tr("A", Amt(<<1>>)) >>,
    << Tr("B", Amt(<<0>>)), Tr("B", Amt(<<1>>)) >>,
    << Tr("B", Amt(<<2>>)) >>, << Tr("B", Amt(<<0>>)) >>,
    << Tr("A", Amt(<<1>>)) >>, << Tr("Z", Amt(<<1>>)) >>, << Tr("BAD", Amt(<<1>>)) >>,
    << Tr("B", Amt(MaxInt64)) >>, << Tr("B", Amt(TwoTo63)) >>, << Tr("B", Amt(U64)) >>,
    << Tr("B", Amt(TwoTo64)) >>, << Tr("B", Amt(D18)) >>,
    << Tr("B", Amt(I63m1)), Tr("A", Amt(<<1>>)) >>,
    << Tr("B", Amt(MaxInt64)), Tr("A", Amt(<<1>>)) >>,
    << Tr("B", Amt(TwoTo63)), Tr("A", Amt(TwoTo63)) >>,       \* sum = 2^64: must not wrap to 0
    << Tr("B", Amt(U64)), Tr("A", Amt(<<2>>)) >>,             \* sum = 2^64 + 1: must not wrap to 1
    << Tr("B", AmtF("neg", <<1>>)) >>, << Tr("B", AmtF("frac", <<1>>)) >>,
    << Tr("B", AmtF("quoted", <<1>>)) >>, << Tr("B", AmtF("exp", <<1>>)) >>,
    << Tr("B", AmtF("neg", <<1>>)), Tr("B", Amt(<<2>>)) >>,
    << TrKs(<<"amount", "address">>, "B", Amt(<<1>>)) >>,
    << TrKs(<<"address">>, "B", Amt(<<1>>)) >>, << TrKs(<<"amount">>, "B", Amt(<<1>>)) >>,
    << TrKs(<<"address", "amount", "unknown">>, "B", Amt(<<1>>)) >>,
    << TrKs(<<"address", "address", "amount">>, "B", Amt(<<1>>)) >>,
    << TrKs(<<"address", "amount", "amount">>, "B", Amt(<<1>>)) >>,
    << TrKs(<<"address", "Amount">>, "B", Amt(<<1>>)) >>,
    << TrKs(<<"ADDRESS", "amount">>, "B", Amt(<<1>>)) >> }

AltConv == {"pUSD", "pFCT", "pXYZ", "USD", "num", "peg", "esc:pEUR", "esc:PEG"}

(* second transaction of the batch: <<>> (none) or one of these *)
AltSecond ==
  { << DefTx >>,
    << MkTx(<<"input", "conversion">>, DefIKeys, "A", "pUSD", Amt(<<1>>), DefTrs, "PEG") >>,
    << MkTx(<<"input", "conversion">>, DefIKeys, "A", "PEG", Amt(MaxInt64), DefTrs, "pFCT") >>,
    << MkTx(DefTKeys, DefIKeys, "B", "pUSD", Amt(<<1>>), << Tr("A", Amt(<<1>>)) >>, "PEG") >>,
    << MkTx(DefTKeys, DefIKeys, "Z", "pUSD", Amt(<<1>>), DefTrs, "PEG") >>,
    << MkTx(DefTKeys, DefIKeys, "A", "pUSD", Amt(<<2>>), DefTrs, "PEG") >>,           \* sum mismatch
    << MkTx(<<"input", "conversion">>, DefIKeys, "A", "pUSD", Amt(<<1>>), DefTrs, "pUSD") >>,
    << MkTx(<<"input", "conversion">>, DefIKeys, "A", "pUSD", Amt(TwoTo63), DefTrs, "PEG") >>,
    << MkTx(<<"input", "transfers", "unknown">>, DefIKeys, "A", "pUSD", Amt(<<1>>), DefTrs, "PEG") >>,
    << MkTx(DefTKeys, <<"address", "amount", "unknown">>, "A", "pUSD", Amt(<<1>>), DefTrs, "PEG") >>,
    << MkTx(DefTKeys, DefIKeys, "A", "pXYZ", Amt(<<1>>), DefTrs, "PEG") >> }

AllDims == {"bkeys", "ver", "ws", "ukind", "first", "second",
            "tkeys", "ikeys", "iaddr", "itype", "iamt", "trs", "conv"}
ASSUME SemDims \subseteq AllDims

P(D, d, def, alt) == IF d \in D THEN alt ELSE {def}

ShapesDev(D) ==
  { [bkeys |-> bk, ver |-> ve, ws |-> w, ukind |-> uk,
     txs |-> (IF fi THEN << MkTx(tk, ik, ia, it, am, tr, cv) >> ELSE <<>>) \o se] :
      bk \in P(D, "bkeys", <<"version", "transactions">>, AltBKeys),
      ve \in P(D, "ver", "1", AltVer),
      w  \in P(D, "ws", "none", AltWs),
      uk \in P(D, "ukind", "short", AltUkind),
      fi \in P(D, "first", TRUE, AltFirst),
      se \in P(D, "second", <<>>, AltSecond),
      tk \in P(D, "tkeys", DefTKeys, AltTKeys),
      ik \in P(D, "ikeys", DefIKeys, AltIKeys),
      ia \in P(D, "iaddr", "A", AltIAddr),
      it \in P(D, "itype", "pUSD", AltIType),
      am \in P(D, "iamt", Amt(<<1>>), AltIAmt),
      tr \in P(D, "trs", DefTrs, AltTrs),
      cv \in P(D, "conv", "PEG", AltConv) }

DevSets ==
  { D \in SUBSET AllDims :
      \/ Cardinality(D) <= KAll
      \/ D \subseteq SemDims /\ Cardinality(D) <= KSem }

(* hand written adversarial shapes (length accounting tricks)              *)
Crafted ==
  LET in18 == MkTx(DefTKeys, <<"address", "amount", "amount">>, "A", "pUSD", Amt(D18),
                   << Tr("B", Amt(D18)) >>, "PEG")
      base(tx, uk) == [bkeys |-> <<"version", "transactions">>, ver |-> "1", ws |-> "none",
                       ukind |-> uk, txs |-> << tx >>]
  IN { base(in18, "short"),
       base(MkTx(DefTKeys, <<"address", "amount", "unknown">>, "A", "pUSD", Amt(<<1>>), DefTrs, "PEG"), "pad28"),
       base(MkTx(<<"input", "conversion">>, <<"address", "amount", "unknown">>, "A", "pUSD", Amt(<<1>>), DefTrs, "PEG"), "pad28"),
       base(MkTx(<<"input", "unknown">>, DefIKeys, "A", "pUSD", Amt(<<1>>), DefTrs, "PEG"), "pad13"),
       base(MkTx(<<"input", "transfers", "conversion">>, DefIKeys, "A", "pUSD", Amt(<<1>>), <<>>, "PEG"), "short"),
       base(MkTx(<<"input", "transfers", "conversion">>, DefIKeys, "A", "pUSD", Amt(<<0>>), <<>>, "PEG"), "short") }

(* The sets ShapesDev(D) are pairwise disjoint (a shape determines the set of *)
(* dimensions in which it differs from the default), so the cases are kept   *)
(* as a concatenation of sequences: TLC's UNION is quadratic in the size of  *)
(* its result.                                                               *)
(* balanced recursion: a linear one is ~5000 Java frames deep in the thorough  *)
(* tier, and TLC silently gives up caching a constant whose evaluation        *)
(* overflows the stack (it is then re-evaluated at every use).                *)
DevSeq == SX!SetToSeq(DevSets)
RECURSIVE ConcatRange(_, _)
ConcatRange(lo, hi) ==
  IF lo > hi THEN <<>>
  ELSE IF lo = hi THEN SX!SetToSeq(ShapesDev(DevSeq[lo]))
  ELSE LET mid == (lo + hi) \div 2 IN ConcatRange(lo, mid) \o ConcatRange(mid + 1, hi)

BatchSeq == ConcatRange(1, Len(DevSeq)) \o SX!SetToSeq(Crafted)
AmtSeq   == SX!SetToSeq(AmtCases)
NA == Len(AmtSeq)
NB == Len(BatchSeq)

-----------------------------------------------------------------------------
(* export *)

AmtLine(i, t) ==
  LET p == ParseAmount(t)
  IN [id |-> i, tok |-> t, exp_ok |-> p.ok, exp_v |-> p.v, may |-> AmountMayReject(Abstract(t))]

BatchLine(i, s) == [id |-> i, shape |-> s, canonical |-> Canonical(s), must |-> MustAccept(s)]

ExportAmt ==
  /\ ndJsonSerialize("cases_amt.ndjson", [i \in 1..NA |-> AmtLine(i, AmtSeq[i])])
  /\ PrintT(<<"CASES_AMT", NA>>)
ExportBatch ==
  /\ ndJsonSerialize("cases_batch.ndjson", [i \in 1..NB |-> BatchLine(i, BatchSeq[i])])
  /\ PrintT(<<"CASES_BATCH", NB>>)

ASSUME ExportAmt
ASSUME ExportBatch

-----------------------------------------------------------------------------
(* state graph: one state per case *)

VARIABLE idx

c == IF idx <= NA THEN [k |-> "amt", tok |-> AmtSeq[idx], shape |-> <<>>]
     ELSE [k |-> "batch", tok |-> <<>>, shape |-> BatchSeq[idx - NA]]

Init == idx \in 1..(NA + NB)
Next == UNCHANGED idx

(* small values: cross-check the digit arithmetic with TLC's own integers  *)
RECURSIVE ToInt(_)
ToInt(d) == IF d = <<>> THEN 0 ELSE ToInt(SubSeq(d, 1, Len(d) - 1)) * 10 + d[Len(d)]

AmtInv ==
  c.k = "amt" =>
    LET r == Abstract(c.tok)
        p == ParseAmount(c.tok)
    IN /\ p.ok => /\ IsCanon(p.v) /\ DLT(p.v, TwoTo64)          \* never a value >= 2^64
                  /\ WellFormed(r) /\ Len(r.frac) <= 8           \* at most 8 fraction digits
                  /\ p.v = ExactValue(r)
       /\ ~p.ok => p.v = <<>>
       /\ AmountMayReject(r) => p.ok
       /\ (\E i \in DOMAIN c.tok : c.tok[i] > DOT) => ~p.ok      \* junk is never accepted
       /\ (r.junk = "none" /\ ~r.hasDot /\ Len(Canon(r.whole)) <= 1)   \* w in 0..9
            => /\ p.ok
               /\ ToInt(p.v) = ToInt(r.whole) * 100000000
       /\ (WellFormed(r) /\ Len(Canon(r.whole)) <= 1 /\ Len(r.frac) <= 8)
            => /\ p.ok
               /\ ToInt(p.v) = ToInt(r.whole) * 100000000 + ToInt(r.frac \o Zeros(8 - Len(r.frac)))
       \* the verdict of an observation that agrees with the spec is "pass",
       \* and one that differs in one digit / in the verdict is not
       /\ AmountFailClass(c.tok, p) = "pass"
       /\ p.ok => AmountFailClass(c.tok, [ok |-> TRUE, v |-> DAdd(p.v, <<1>>)]) = "amount-inexact"
       /\ ~p.ok => AmountFailClass(c.tok, [ok |-> TRUE, v |-> <<0>>]) # "pass"

SumOf(tx) == DSum([i \in DOMAIN tx.trs |-> tx.trs[i].amt.d])

BatchInv ==
  c.k = "batch" =>
    LET s == c.shape
    IN /\ MustAccept(s) => Canonical(s)
       /\ RoundTrip(s)
       /\ Canonical(s) => Canonical(FoldShape(s))
       /\ Canonical(s) = Canonical([s EXCEPT !.ws = "none", !.ukind = "short"])
       \* the conjuncts of the property text, restated on the meaning
       /\ Canonical(s) =>
            LET m == Txs(s)
            IN /\ Len(m) >= 1
               /\ \A i, j \in DOMAIN m : m[i].iaddr = m[j].iaddr /\ m[i].iaddr \in {"A", "B"}
               /\ \A i \in DOMAIN m :
                    /\ (m[i].trs = <<>>) # (m[i].conv = "")
                    /\ DLE(m[i].iamt, MaxInt64)
                    /\ m[i].itype \in KnownTickers
                    /\ m[i].conv # "" => m[i].conv \in KnownTickers \ {m[i].itype}
                    /\ \A k \in DOMAIN m[i].trs : DLE(m[i].trs[k].amt, MaxInt64)
                    /\ m[i].trs # <<>> => DSum([k \in DOMAIN m[i].trs |-> m[i].trs[k].amt]) = m[i].iamt
       /\ (\E k \in Rng(s.bkeys) : k \notin {"version", "transactions", "metadata"}) => ~Canonical(s)
       /\ BatchFailClass(s, [ok |-> MustAccept(s), reenc |-> TRUE, ok2 |-> TRUE,
                             dec1 |-> Txs(s), dec2 |-> Txs(s)]) = "pass"
       /\ ~Canonical(s) => BatchFailClass(s, [ok |-> TRUE, reenc |-> TRUE, ok2 |-> TRUE,
                                              dec1 |-> Txs(s), dec2 |-> Txs(s)]) # "pass"
       /\ MustAccept(s) => BatchFailClass(s, [ok |-> FALSE, reenc |-> FALSE, ok2 |-> FALSE,
                                              dec1 |-> <<>>, dec2 |-> <<>>]) = "canonical-rejected"

=============================================================================

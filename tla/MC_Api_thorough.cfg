SPECIFICATION Spec
CONSTANTS N = 5  P = 3  Locked = TRUE  PublishEarly = FALSE  MaxCalls = 4  MaxFails = 1  PublishOnFail = FALSE  PublishOnReadFail = FALSE  Readers = {"r1", "r2"}
INVARIANTS LedgerUnaffected RespCommitted NoTornCache InOrder
CHECK_DEADLOCK FALSE

SPECIFICATION Spec
CONSTANTS N = 5  P = 3  Locked = TRUE  PublishEarly = FALSE  MaxCalls = 4  Readers = {"r1", "r2"}
INVARIANTS LedgerUnaffected RespCommitted NoTornCache
CHECK_DEADLOCK FALSE

SPECIFICATION Spec
CONSTANTS N = 4  P = 3  Locked = TRUE  PublishEarly = TRUE  MaxCalls = 2  MaxFails = 0  PublishOnFail = FALSE  PublishOnReadFail = FALSE  Readers = {"r1", "r2"}
INVARIANTS LedgerUnaffected RespCommitted NoTornCache InOrder
CHECK_DEADLOCK FALSE

SPECIFICATION Spec
CONSTANTS Addrs = {"a","b","c"} MaxStake = 3 Bank = 5 TieBreak = "address"
INVARIANTS Agree AgreeBalances
CHECK_DEADLOCK FALSE

SPECIFICATION Spec
CONSTANTS N = 9  P = 4  Reload = "run"  MaxRestarts = 3
INVARIANT UsedWindowIsDesign
CHECK_DEADLOCK FALSE

------------------------- MODULE Trace_ConvertBig -------------------------
(* As Trace_Convert, for 64-bit arguments (edges of int64 / uint64, the overflow branch): the numbers are base-10^4 limb        *)
(* sequences (Big.tla), as in Trace_Ledger.                                                                                     *)
EXTENDS Big, Integers, Sequences, FiniteSets, TLC, Json

INSTANCE Ledger WITH
  NZero <- BZero, NAdd <- BAdd, NSub <- BSub, NLeq <- BLeq, NMul <- BMul, NDiv <- BDiv, NOfNat <- BFromNat,
  NFitsI64 <- LAMBDA a : BLt(a, B2p63), NFitsU64 <- LAMBDA a : BLt(a, B2p64),
  Addrs <- {"a"}, Assets <- {"PEG", "pUSD"}, Act <- LAMBDA k : IF k = "PIP10" THEN 1 ELSE 0, AvgPeriod <- 2, SnapRate <- 144,
  StakeBank <- BFromNat(5), BankBase <- BFromNat(5), DevUnit <- BFromNat(20), DevPct <- <<100>>, DevAddr <- LAMBDA i : "a",
  MintAmt <- LAMBDA t : BZero, Deviations <- {}

Tr == TLCEval(ndJsonDeserialize("trace.ndjson"))
VARIABLES l, bad, over
Expected(e) == Convert(e.era, e.amt, e.fr, e.fa, e.tr, e.ta)
Agrees(e) == LET c == Expected(e) IN c.ok = e.ok /\ (c.ok => c.v = e.v)
Init == l = 1 /\ bad = 0 /\ over = 0
Next == /\ l <= Len(Tr)
        /\ l' = l + 1
        /\ over' = IF Expected(Tr[l]).ok THEN over ELSE over + 1
        /\ bad' = IF Agrees(Tr[l]) THEN bad
                  ELSE IF bad < 5 /\ PrintT("ISSUE " \o ToJson(<<Tr[l], Expected(Tr[l])>>)) THEN bad + 1 ELSE bad + 1
Spec == Init /\ [][Next]_<<l, bad, over>>
Report == l = Len(Tr) + 1 => PrintT(<<"DONE", Len(Tr), bad, over>>)
=============================================================================

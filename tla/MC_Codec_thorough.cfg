\* thorough tier
CONSTANTS
  StrMax = 7
  KAll = 3
  KSem = 4
  SemDims = {"tkeys", "iamt", "trs", "conv", "itype"}
  BigMenu = TRUE
INIT Init
NEXT Next
INVARIANT AmtInv
INVARIANT BatchInv
CHECK_DEADLOCK FALSE

\* thorough tier
CONSTANTS
  StrMax = 7
  KAll = 3
  KSem = 3
  BigMenu = TRUE
INIT Init
NEXT Next
INVARIANT AmtInv
INVARIANT BatchInv
CHECK_DEADLOCK FALSE

\* thorough tier
CONSTANTS
  StrMax = 7
  KAll = 3
  KSem = 3
  SemDims = {"second", "tkeys", "iaddr", "itype", "iamt", "trs", "conv"}
  BigMenu = TRUE
INIT Init
NEXT Next
INVARIANT AmtInv
INVARIANT BatchInv
CHECK_DEADLOCK FALSE

------------------------------ MODULE MC_Sync ------------------------------
EXTENDS Sync
\* deviations switched per config through a constant operator
=============================================================================

SPECIFICATION Spec
CONSTANTS MaxBal = 1  Banks = {2, 5}
INVARIANTS StakeIsMin Cap ExactWhenOver FullWhenUnder FloorShare AbsentUnpaid DustToTop LateFundsEarnNothing YieldLeqBank FullIfFits Proportional ExactBankWhenOver NeverMoreThanWanted RefundBound DevTotal
CHECK_DEADLOCK FALSE

---------------------------- MODULE Trace_Ledger ----------------------------
(***************************************************************************)
(* Trace validation of the real pegnetd ledger against LedgerBlock.tla.    *)
(* The file trace.ndjson holds one or more runs of the harness (vh run):   *)
(*   Start  - schedule, address and asset universe                         *)
(*   Block  - abstract content of the block ("in") and the projection of   *)
(*            the committed database after it ("obs")                      *)
(*   Restart / End                                                         *)
(* Every Block line is a one-step obligation from the state observed after *)
(* the previous block; all amounts are exact (Big.tla).  Disagreements are *)
(* printed as ISSUE lines tagged with the property they contradict.        *)
(***************************************************************************)
EXTENDS Big, Json, TLC, Integers, Sequences, FiniteSets

Tr == TLCEval(ndJsonDeserialize("trace.ndjson"))
Hdr == Tr[1]
SeqSet(s) == {s[i] : i \in 1..Len(s)}

TAddrs  == SeqSet(Hdr.addrs)
TAssets == SeqSet(Hdr.assets)
Never == 1073741824
TAct(k) == IF k \in DOMAIN Hdr.sched THEN Hdr.sched[k] ELSE Never

B1e8 == <<0, 0, 1>>
TDevPct == <<10, 19, 9, 9, 8, 8, 8, 8, 5, 5, 3, 3, 2, 3>>
TDevAddr(i) == "DEV" \o ToString(i)
MintTable == [PEG |-> 334509613, pUSD |-> 3184409, pKRW |-> 118, pXAU |-> 1, pXAG |-> 599, pXBT |-> 2,
              pETH |-> 5476, pLTC |-> 2004, pRVN |-> 13124813, pXBC |-> 243, pBNB |-> 3461, pXLM |-> 45892,
              pADA |-> 1414096, pXMR |-> 682, pDASH |-> 6001, pZEC |-> 2696, pEOS |-> 2059, pLINK |-> 9110,
              pATOM |-> 101, pNEO |-> 2, pCRO |-> 164, pETC |-> 5, pVET |-> 22400000, pHT |-> 5, pDCR |-> 1049,
              pAUD |-> 9, pNOK |-> 59, pXTZ |-> 11117, pDOGE |-> 9870, pALGO |-> 457602, pDGB |-> 51175]
TMintAmt(t) == IF t \in DOMAIN MintTable THEN BMul(BFromNat(MintTable[t]), B1e8) ELSE BZero

KeepAll == "allHist" \in DOMAIN Hdr /\ Hdr.allHist
TDeviations == IF "deviations" \in DOMAIN Hdr THEN SeqSet(Hdr.deviations) ELSE {}

INSTANCE LedgerBlock WITH
  NZero <- BZero, NAdd <- BAdd, NSub <- BSub, NLeq <- BLeq, NMul <- BMul, NDiv <- BDiv, NOfNat <- BFromNat,
  NFitsI64 <- LAMBDA a : BLt(a, B2p63), NFitsU64 <- LAMBDA a : BLt(a, B2p64),
  Addrs <- TAddrs, Assets <- TAssets, Act <- TAct, AvgPeriod <- Hdr.avgPeriod, SnapRate <- 144,
  StakeBank <- BMul(BFromNat(4500 * 144), B1e8), BankBase <- BMul(BFromNat(5000), B1e8),
  DevUnit <- BMul(BFromNat(20), B1e8), DevPct <- TDevPct, DevAddr <- TDevAddr, MintAmt <- TMintAmt,
  Deviations <- TDeviations

VARIABLES l, cur, hist, txh, nIss, dig
vars == <<l, cur, hist, txh, nIss, dig>>

\* ------------------------------------------------------------------ adaptors
ObsBal(o) == [a \in TAddrs |-> [t \in TAssets |-> o[a][t]]]
ObsBalOf(S) == S.bal
ObsRates(ob) == [t \in TAssets |-> IF t \in DOMAIN ob.rates THEN ob.rates[t] ELSE BZero]

\* merge the history delta of a block into hist: hash -> [h, exec, rows, txs]
\* (only transaction-chain entries are kept across blocks; reward / payout rows are checked in the step that shows them)
RECURSIVE MergeHist(_, _, _, _)
MergeHist(hm, d, i, keep) ==
  IF i > Len(d) THEN hm
  ELSE LET b == d[i]
           r == [h |-> b.height, exec |-> b.exec, rows |-> b.rows, txs |-> b.txs]
       IN  MergeHist(IF b.hash \in keep THEN (b.hash :> r) @@ hm ELSE hm, d, i + 1, keep)

InEntries(in) == in.entries
HashesOf(es) == {es[i].hash : i \in 1..Len(es)}

\* ------------------------------------------------------------------ comparisons
RolesIssue(p, what) == <<p, what>>

\* per-transaction converted amounts the history shows for a batch
HistTo(hrec) == [i \in 1..Len(hrec.txs) |-> hrec.txs[i].toAmt]

Compare(S, res, in, ob, hist2) ==
  LET h == in.h
      Sn == res.S
      obal == ObsBal(ob.bal)
      D == {<<a, t>> \in TAddrs \X TAssets : Sn.bal[a][t] # obal[a][t]}
      winnersA == {in.opr.winners[i].a : i \in 1..Len(in.opr.winners)}
                  \cup {in.spr.sprs[res.info.sprIdx[i]].coinbase : i \in 1..Len(res.info.sprIdx)}
      burners == {in.burns[i].a : i \in 1..Len(in.burns)}
      special == {"BURN", "OLDBURN", "MINT"} \cup {TDevAddr(i) : i \in 1..Len(TDevPct)}
      batchA == UNION {{e.txs[i].a : i \in 1..Len(e.txs)} \cup UNION {{e.txs[i].to[j].a : j \in 1..Len(e.txs[i].to)} : i \in 1..Len(e.txs)}
                       : e \in {Sn.ent[x] : x \in res.info.visited \cap DOMAIN Sn.ent}}
      DA == {d[1] : d \in D}
      balIss == IF D = {} \/ res.info.taint THEN {} ELSE
                {<<"C04", <<"balances differ from the exact effects of the block's events", h, D>>>>}
                \* role-specific tags: only addresses whose ONLY role in this block is the one in question
                \* (payout addresses of ALL staking records of the block count: records that do not win pay nothing)
                \cup (LET sprAll == {in.spr.sprs[i].coinbase : i \in 1..Len(in.spr.sprs)}
                          X == (DA \cap (winnersA \cup sprAll)) \ (batchA \cup special \cup res.info.stakers) IN
                      IF X # {} THEN {<<"C11", <<"reward balance delta differs from the graded payout", h, X>>>>} ELSE {})
                \cup (LET X == (DA \cap burners) \ (batchA \cup winnersA \cup special) IN
                      IF X # {} /\ h < TAct("V20") THEN {<<"C11", <<"burn credit differs", h, X>>>>} ELSE {})
                \cup (LET X == (DA \cap res.info.stakers) \ (batchA \cup winnersA \cup special) IN
                      IF X # {} THEN {<<"C14", <<"staking payout differs", h, X>>>>} ELSE {})
                \cup (LET X == (DA \cap special) \ (batchA \cup winnersA) IN
                      IF X # {} THEN {<<"C15", <<"scheduled issuance differs", h, X>>>>} ELSE {})
                \* C16: in the bank era, an address that takes part in this block only as the author of PEG requests paid from the bank
                \* must end with exactly its share of the bank and its refund
                \cup (LET pegA == {res.info.pegOut[i].a : i \in 1..Len(res.info.pegOut)}
                          X == (DA \cap pegA) \ (winnersA \cup special \cup res.info.stakers \cup burners) IN
                      IF X # {} THEN {<<"C16", <<"PEG paid from the bank / refund to a requester differs from its share", h, X>>>>} ELSE {})
                \* C05: an address ends with LESS than the specification's events leave it, although it is not the input address of any batch
                \* considered in this block (the scheduled adjustments are part of the specification's events): a debit nobody signed
                \cup (LET inputsA == UNION {{e.txs[i].a : i \in 1..Len(e.txs)} : e \in {Sn.ent[x] : x \in res.info.visited \cap DOMAIN Sn.ent}}
                          X == {d[1] : d \in {dd \in D : BLt(obal[dd[1]][dd[2]], Sn.bal[dd[1]][dd[2]])}} \ inputsA IN
                      IF X # {} THEN {<<"C05", <<"an address was debited although no authorised batch of the block draws on it", h, X>>>>} ELSE {})
                \cup (LET X == (DA \cap batchA) \ (winnersA \cup special \cup res.info.stakers \cup burners) IN
                      IF X # {} THEN {<<"C03", <<"batch effects are not all-or-nothing / exact", h, X>>>>} ELSE {})
      \* C06: an address whose balance of some asset grew by exactly 2, 3 or 4 times the amount the block's events credit to it
      \* (an entry's effect applied more than once); only for parties of batches considered in this block
      pre == ObsBal(ObsBalOf(S))
      multA == {d \in D : d[1] \in batchA /\ BLt(pre[d[1]][d[2]], Sn.bal[d[1]][d[2]]) /\ BLt(Sn.bal[d[1]][d[2]], obal[d[1]][d[2]])
                          /\ \E k \in 2..4 : BSub(obal[d[1]][d[2]], pre[d[1]][d[2]]) = BMulS(BSub(Sn.bal[d[1]][d[2]], pre[d[1]][d[2]]), k)}
      multIss == IF multA # {} /\ ~res.info.taint THEN {<<"C06", <<"the effect of an entry was applied more than once (credit is an exact multiple of the single effect)", h, multA>>>>} ELSE {}
      outIss == IF Len(ob.outside) > 0 THEN {<<"C04", <<"value outside the scenario universe", h, ob.outside>>>>} ELSE {}
      \* converted amounts recorded in history for batches executed in this block (C07, C17)
      toIss == UNION {IF x \in DOMAIN hist2 /\ HistTo(hist2[x]) # res.info.to[x] /\ res.info.pegOut = <<>>
                      THEN {<<"C07", <<"recorded converted amount differs from floor(in*src/dst)", h, x>>>>} ELSE {}
                      : x \in DOMAIN res.info.to}
      \* holding and relation rows (C06)
      newHeldObs == [i \in 1..Len(ob.holding) |-> ob.holding[i].hash]
      newHeldSpec == [i \in 1..(Len(Sn.holding) - Len(S.holding)) |-> Sn.holding[Len(S.holding) + i].hash]
      holdIss == IF newHeldObs # newHeldSpec THEN {<<"C06", <<"holding rows differ", h, newHeldObs, newHeldSpec>>>>} ELSE {}
      relObs == {ob.rel[i].hash : i \in 1..Len(ob.rel)}
      relIss == IF relObs # (Sn.rel \ S.rel) THEN {<<"C06", <<"relation rows differ", h, relObs, Sn.rel \ S.rel>>>>} ELSE {}
      \* winners table (C11)
      wIss == IF in.opr.present /\ Len(in.opr.winners) > 0
              THEN (IF Len(ob.winners) # in.opr.gradedN
                       \/ \E i \in 1..Len(in.opr.winners) : i > Len(ob.winners) \/ ob.winners[i].a # in.opr.winners[i].a \/ ob.winners[i].pay # in.opr.winners[i].pay
                    THEN {<<"C11", <<"winner records differ from the grader's verdict", h>>>>} ELSE {})
              ELSE (IF Len(ob.winners) > 0 THEN {<<"C11", <<"winner records without winners", h>>>>} ELSE {})
      snapIss == IF ob.snapChanged /\ (ObsBal(ob.snapCur) # Sn.snapCur \/ ObsBal(ob.snapPast) # Sn.snapPast)
                 THEN {<<"C14", <<"snapshot tables differ", h>>>>}
                 ELSE IF ~ob.snapChanged /\ (Sn.snapCur # S.snapCur \/ Sn.snapPast # S.snapPast)
                 THEN {<<"C14", <<"snapshot not taken", h>>>>} ELSE {}
      mintExp == IF h >= TAct("V204") /\ h < TAct("V204Burn") THEN DOMAIN MintTable \ TAssets ELSE {}
      mintIss == IF DOMAIN ob.mintOther # mintExp \/ \E t \in mintExp \cap DOMAIN ob.mintOther : ob.mintOther[t] # TMintAmt(t)
                 THEN {<<"C15", <<"minted supply outside the observed assets differs from the 2.0.4 table", h>>>>} ELSE {}
      \* bank row of the block (C16): amount available, used, requested
      bankIss == IF res.info.bankRow
                 THEN (IF ~ob.bank.present \/ ob.bank.amt.neg \/ ob.bank.used.neg \/ ob.bank.req.neg
                          \/ ob.bank.amt.v # Sn.bank[h].amt \/ ob.bank.used.v # Sn.bank[h].used \/ ob.bank.req.v # Sn.bank[h].req
                       THEN {<<"C16", <<"bank row differs (amount, used, requested)", h>>>>} ELSE {})
                 ELSE (IF ob.bank.present THEN {<<"C16", <<"bank row outside the bank era / for an unrated block", h>>>>} ELSE {})
      \* recorded PEG yield and refund of every request (C16, C17)
      pegIss == UNION {LET o == res.info.pegOut[i] IN
                       IF o.hash \in DOMAIN hist2 /\ o.idx + 1 <= Len(hist2[o.hash].txs)
                          /\ (hist2[o.hash].txs[o.idx + 1].toAmt # o.yield
                              \/ Len(hist2[o.hash].txs[o.idx + 1].outs) # 1
                              \/ hist2[o.hash].txs[o.idx + 1].outs[1].amt # o.refund)
                       THEN {<<"C16", <<"recorded PEG yield / refund differs", h, o.hash, o.idx>>>>} ELSE {}
                       : i \in 1..Len(res.info.pegOut)}
      syncIss == IF ob.synced # h THEN {<<"C02", <<"synced height is not the block height", h, ob.synced>>>>} ELSE {}
  IN  balIss \cup multIss \cup outIss \cup toIss \cup holdIss \cup relIss \cup wIss \cup snapIss \cup syncIss \cup mintIss \cup bankIss \cup pegIss

\* ------------------------------------------------------------------ C17: history replays to balances
\* effect of one recorded action on the balances
HistTxEffect(bal, t, h) ==
  IF t.action = 1 THEN
       LET b1 == Debit(bal, t.from, t.fromAsset, t.fromAmt)
           F[j \in 0..Len(t.outs)] == IF j = 0 THEN b1
                                      ELSE IF IsBurnOutput(t.outs[j].a, h) THEN F[j - 1]
                                      ELSE Credit(F[j - 1], t.outs[j].a, t.fromAsset, t.outs[j].amt)
       IN  F[Len(t.outs)]
  ELSE IF t.action = 2 THEN
       LET b1 == Credit(Debit(bal, t.from, t.fromAsset, t.fromAmt), t.from, t.toAsset, t.toAmt)
           F[j \in 0..Len(t.outs)] == IF j = 0 THEN b1 ELSE Credit(F[j - 1], t.outs[j].a, t.fromAsset, t.outs[j].amt)   \* refund of a PEG request
       IN  F[Len(t.outs)]
  ELSE IF t.action = 3 THEN (IF t.toNeg THEN Debit(bal, t.from, t.toAsset, t.toAmt) ELSE Credit(bal, t.from, t.toAsset, t.toAmt))
  ELSE IF t.action = 4 THEN Credit(bal, t.from, "pFCT", t.fromAmt)
  ELSE bal
RECURSIVE HistBatchEffect(_, _, _, _)
HistBatchEffect(bal, b, h, i) == IF i > Len(b.txs) THEN bal ELSE HistBatchEffect(HistTxEffect(bal, b.txs[i], h), b, h, i + 1)
\* rows of the delta that report an execution in this block (and did not before)
RECURSIVE HistReplay(_, _, _, _, _)
HistReplay(bal, d, h, old, i) ==
  IF i > Len(d) THEN bal
  ELSE LET b == d[i]
           was == IF b.hash \in DOMAIN old THEN old[b.hash].exec ELSE -99
       IN  HistReplay(IF b.exec = h /\ was # h THEN HistBatchEffect(bal, b, h, 1) ELSE bal, d, h, old, i + 1)
ReplayIssues(S, in, ob, old) ==
  LET h == in.h
      start == MintStage(NullifyBurn(S.bal, h), h)            \* the scheduled one-time adjustments have no history of their own
      got == HistReplay(start, ob.hist, h, old, 1)
      D == {<<a, t>> \in TAddrs \X TAssets : got[a][t] # ObsBal(ob.bal)[a][t]}
  IN  IF D # {} THEN {<<"C17", <<"replaying the history rows of the block (plus scheduled adjustments) does not reproduce the balances", h, D>>>>} ELSE {}

\* ------------------------------------------------------------------ C17: what the API says
ActSeq(q) == LET F[i \in 0..Len(q.pages)] == IF i = 0 THEN <<>>
                                              ELSE F[i - 1] \o [j \in 1..Len(q.pages[i].actions) |-> <<q.pages[i].actions[j].hash, q.pages[i].actions[j].idx>>]
             IN  F[Len(q.pages)]
ExpActs(q, hm, nameOf) ==
  IF q.by = "hash" THEN (IF q.key \in DOMAIN hm THEN {<<q.key, hm[q.key].txs[i].idx>> : i \in 1..Len(hm[q.key].txs)} ELSE {})
  ELSE IF q.by = "height" THEN UNION {{<<x, hm[x].txs[i].idx>> : i \in 1..Len(hm[x].txs)} : x \in {y \in DOMAIN hm : ToString(hm[y].h) = q.key}}
  ELSE UNION {{<<x, hm[x].txs[i].idx>> : i \in {j \in 1..Len(hm[x].txs) : \E k \in 1..Len(hm[x].txs[j].lookup) : hm[x].txs[j].lookup[k] = q.key}} : x \in DOMAIN hm}
QueryIssues(q, hm, h) ==
  LET acts == ActSeq(q)
      exp == ExpActs(q, hm, 0)
      n == Len(acts)
      dup == \E i, j \in 1..n : i < j /\ acts[i] = acts[j]
      okPages == \A i \in 1..Len(q.pages) :
                   /\ (q.pages[i].code = 0 => q.pages[i].count = Cardinality(exp))
                   /\ (i > 1 => q.pages[i].offset = q.pages[i - 1].next)
                   /\ (i < Len(q.pages) => q.pages[i].next # 0)
      last == q.pages[Len(q.pages)]
      \* the amounts an action shows (amount converted to / paid out, refund or transfer outputs) are those of the recorded row
      allActs == LET F[i \in 0..Len(q.pages)] == IF i = 0 THEN <<>> ELSE F[i - 1] \o q.pages[i].actions IN F[Len(q.pages)]
      RowOf(a) == LET ts == hm[a.hash].txs IN CHOOSE k \in 1..Len(ts) : ts[k].idx = a.idx
      wrongAmt == {<<a.hash, a.idx>> : a \in {allActs[i] : i \in {j \in 1..Len(allActs) :
                       /\ allActs[j].hash \in DOMAIN hm /\ ~allActs[j].neg
                       /\ \E k \in 1..Len(hm[allActs[j].hash].txs) : hm[allActs[j].hash].txs[k].idx = allActs[j].idx
                       /\ LET row == hm[allActs[j].hash].txs[RowOf(allActs[j])] IN
                            /\ ~row.toNeg
                            /\ \/ allActs[j].toAmt # row.toAmt \/ allActs[j].fromAmt # row.fromAmt
                               \/ Len(allActs[j].outs) # Len(row.outs)
                               \/ \E o \in 1..Len(row.outs) : o <= Len(allActs[j].outs) /\ (allActs[j].outs[o].a # row.outs[o].a \/ allActs[j].outs[o].amt # row.outs[o].amt)}}}
  IN  (IF wrongAmt # {} THEN {<<"C17", <<"an action returned by the API shows other amounts / outputs than the recorded row", h, q.by, q.key, wrongAmt>>>>} ELSE {})
      \cup (IF dup THEN {<<"C17", <<"an action is returned twice across pages", h, q.by, q.key>>>>} ELSE {})
      \cup (IF {acts[i] : i \in 1..n} # exp THEN {<<"C17", <<"paged query does not return exactly the recorded actions", h, q.by, q.key, n, Cardinality(exp)>>>>} ELSE {})
      \cup (IF ~okPages \/ (last.code = 0 /\ last.next # 0) THEN {<<"C17", <<"count / offsets of the pages are inconsistent", h, q.by, q.key>>>>} ELSE {})
ApiIssues(api, hm, ob, h) ==
  (UNION {IF s.found # (s.hash \in DOMAIN hm) \/ (s.found /\ (s.height # hm[s.hash].h \/ s.exec # hm[s.hash].exec))
          THEN {<<"C17", <<"get-transaction-status disagrees with the recorded status", h, s.hash, s.found, s.exec>>>>} ELSE {}
          : s \in SeqSet(api.status)})
  \cup (IF \E a \in DOMAIN api.balances : \E t \in TAssets : api.balances[a][t] # ob.bal[a][t]
         THEN {<<"C17", <<"get-pegnet-balances disagrees with the ledger", h>>>>} ELSE {})
  \cup (IF api.sync # h THEN {<<"C18", <<"get-sync-status reports a height that is not the committed height", h, api.sync>>>>} ELSE {})
  \cup UNION {QueryIssues(api.queries[i], hm, h) : i \in 1..Len(api.queries)}

\* The ledger as the other read methods present it (not part of any listed property's statement; reported under the tag "API"):
\* get-pegnet-issuance = per-asset sum of all balances, get-pegnet-rates(h) = the rates recorded for h (an error for an unrated
\* height), get-rich-list = the count largest positive balances in non-increasing order, get-bank(h) = the bank row of h.
RichIssues(r, ob, h) ==
  IF r.code # 0 THEN {<<"API", <<"get-rich-list failed", h, r.asset, r.code>>>>}
  ELSE LET n == Len(r.rows)
           listed == {r.rows[i].a : i \in 1..n}
           bad == \/ n > r.count \/ Cardinality(listed) # n
                  \/ \E i \in 1..n : r.rows[i].a \notin TAddrs \/ BIsZero(r.rows[i].amt)
                  \/ \E i \in 1..n : r.rows[i].a \in TAddrs /\ ob.bal[r.rows[i].a][r.asset] # r.rows[i].amt
                  \/ \E i \in 1..n : \E j \in 1..n : i < j /\ ~BLeq(r.rows[j].amt, r.rows[i].amt)
                  \/ (n < r.count /\ \E a \in TAddrs \ listed : ~BIsZero(ob.bal[a][r.asset]))
                  \/ (n = r.count /\ n > 0 /\ \E a \in TAddrs \ listed : ~BLeq(ob.bal[a][r.asset], r.rows[n].amt))
       IN  IF bad THEN {<<"API", <<"get-rich-list is not the top of the ledger", h, r.asset, r.count>>>>} ELSE {}
ApiExtraIssues(api, ob, h) ==
  IF "issuance" \notin DOMAIN api THEN {} ELSE
  (IF api.issuanceCode # 0 \/ api.issuanceSync # h \/ \E t \in TAssets : api.issuance[t] # Supply(ObsBal(ob.bal), t)
     THEN {<<"API", <<"get-pegnet-issuance disagrees with the sum of all balances", h>>>>} ELSE {})
  \cup (IF ob.rated THEN (IF api.rates.code # 0 \/ \E t \in TAssets : api.rates.v[t] # ObsRates(ob)[t]
                           THEN {<<"API", <<"get-pegnet-rates disagrees with the recorded rates", h>>>>} ELSE {})
        ELSE (IF api.rates.code = 0 THEN {<<"API", <<"get-pegnet-rates answers for a height without rates", h>>>>} ELSE {}))
  \cup UNION {RichIssues(api.rich[i], ob, h) : i \in 1..Len(api.rich)}
  \cup (IF ob.bank.present /\ h >= TAct("V4")
           /\ (api.bank.code # 0 \/ api.bank.neg \/ api.bank.amt # ob.bank.amt.v \/ api.bank.used # ob.bank.used.v \/ api.bank.req # ob.bank.req.v)
        THEN {<<"API", <<"get-bank disagrees with the bank row", h>>>>} ELSE {})

\* ------------------------------------------------------------------ behaviour
Init == /\ l = 1 /\ cur = InitState /\ hist = EmptyFn /\ txh = {} /\ nIss = 0 /\ dig = EmptyFn

Report(line, iss) == \A x \in iss : PrintT("ISSUE " \o ToJson(<<line, x[1], ToString(x[2])>>))

StepStart ==
  /\ Tr[l].ev = "Start"
  /\ Assert(Tr[l].sched = Hdr.sched /\ Tr[l].assets = Hdr.assets /\ Tr[l].addrs = Hdr.addrs /\ Tr[l].avgPeriod = Hdr.avgPeriod,
            "all runs in one trace file must share schedule and universe")
  /\ cur' = InitState /\ hist' = EmptyFn /\ txh' = {} /\ dig' = EmptyFn /\ UNCHANGED nIss

\* A block without any content of the tracked chains, at a height where nothing is scheduled, and after which the database shows
\* no change at all: the specification's step is the identity as well (no rates -> no held conversion is considered, no payout, no
\* adjustment), so the full item-by-item evaluation is skipped. Any observed change sends the block through the full evaluation.
Scheduled(h) == h % 144 = 0 \/ \E k \in DOMAIN Hdr.sched : TAct(k) = h \/ TAct(k) + 1 = h
QuietBlock(in, ob) ==
  /\ Len(in.entries) = 0 /\ Len(in.burns) = 0 /\ ~in.opr.present /\ ~in.spr.present /\ ~Scheduled(in.h)
  /\ ~ob.rated /\ Len(ob.hist) = 0 /\ Len(ob.holding) = 0 /\ Len(ob.rel) = 0 /\ ~ob.bank.present /\ Len(ob.winners) = 0
  /\ ~ob.snapChanged /\ Len(ob.outside) = 0 /\ ~ob.gradeRow /\ ob.synced = in.h
  /\ ObsBal(ob.bal) = cur.bal
  /\ "api" \notin DOMAIN Tr[l]

StepQuiet ==
  /\ Tr[l].ev = "Block" /\ QuietBlock(Tr[l].in, Tr[l].obs)
  /\ LET ob == Tr[l].obs
         immIss == IF \E x \in DOMAIN dig : x \notin DOMAIN ob.rateDigests \/ ob.rateDigests[x] # dig[x]
                   THEN {<<"C12", <<"rates recorded for an earlier height changed or disappeared", Tr[l].in.h,
                                   {x \in DOMAIN dig : x \notin DOMAIN ob.rateDigests \/ ob.rateDigests[x] # dig[x]}>>>>} ELSE {}
     IN  /\ Report(l, immIss) /\ nIss' = nIss + Cardinality(immIss) /\ dig' = ob.rateDigests
  /\ UNCHANGED <<cur, hist, txh>>

StepBlock ==
  /\ Tr[l].ev = "Block" /\ ~QuietBlock(Tr[l].in, Tr[l].obs)
  /\ LET e == Tr[l]
         in == e.in
         ob == e.obs
         txh2 == txh \cup HashesOf(in.entries)
         hist2 == MergeHist(hist, ob.hist, 1, IF KeepAll THEN {ob.hist[i].hash : i \in 1..Len(ob.hist)} \cup txh2 ELSE txh2)
         known == txh2 \cap DOMAIN hist2
         O == [self |-> FALSE, exec |-> [x \in known |-> hist2[x].exec], rows |-> [x \in known |-> hist2[x].rows],
               rated |-> ob.rated, rates |-> ObsRates(ob), bal |-> ObsBal(ob.bal)]
         resH == ApplyBlockM(cur, in, O, "design")
         issH == resH.iss \cup Compare(cur, resH, in, ob, hist2)
         \* C07/C03/C04... fix the conversion formula, not which blocks form the average: accept the
         \* window as the implementation maintains it, and file that dependence under C09 alone.
         useCache == issH # {} /\ resH.info.avgsDiffer /\ in.h >= TAct("PIP10")
         resM == ApplyBlockM(cur, in, O, "cache")
         issM == resM.iss \cup Compare(cur, resM, in, ob, hist2)
         cacheExplains == useCache /\ issM = {}
         res == IF cacheExplains THEN resM ELSE resH
         \* C12: rates once recorded for a height never change (digest per height of all pn_rate rows)
         immIss == IF \E x \in DOMAIN dig : x \notin DOMAIN ob.rateDigests \/ ob.rateDigests[x] # dig[x]
                   THEN {<<"C12", <<"rates recorded for an earlier height changed or disappeared", in.h,
                                   {x \in DOMAIN dig : x \notin DOMAIN ob.rateDigests \/ ob.rateDigests[x] # dig[x]}>>>>} ELSE {}
         iss0 == IF cacheExplains
                THEN {<<"C09", <<"conversion priced with an averaging window that depends on when the process was started (reload by height after a restart)", in.h>>>>}
                ELSE issH
         apiIss == IF "api" \in DOMAIN e THEN ApiIssues(e.api, hist2, ob, in.h) \cup ApiExtraIssues(e.api, ob, in.h) ELSE {}
         iss == iss0 \cup immIss \cup ReplayIssues(cur, in, ob, hist) \cup apiIss
         \* continue from the observed state
         nxt == [res.S EXCEPT !.bal = ObsBal(ob.bal),
                              !.holding = cur.holding \o [i \in 1..Len(ob.holding) |-> [hash |-> ob.holding[i].hash, h |-> ob.holding[i].h]],
                              !.rel = cur.rel \cup {ob.rel[i].hash : i \in 1..Len(ob.rel)},
                              !.snapCur = IF ob.snapChanged THEN ObsBal(ob.snapCur) ELSE cur.snapCur,
                              !.snapPast = IF ob.snapChanged THEN ObsBal(ob.snapPast) ELSE cur.snapPast]
     IN  /\ Report(l, iss)
         /\ cur' = nxt /\ hist' = hist2 /\ txh' = txh2 /\ dig' = ob.rateDigests
         /\ nIss' = nIss + Cardinality(iss)

StepRestart ==      \* clean stop + start: everything held only in memory is gone
  /\ Tr[l].ev = "Restart"
  /\ cur' = [cur EXCEPT !.cache = EmptyCache]
  /\ UNCHANGED <<hist, txh, nIss, dig>>

StepOther ==
  /\ Tr[l].ev \notin {"Start", "Block", "Restart"}
  /\ UNCHANGED <<cur, hist, txh, nIss, dig>>

Next == /\ l <= Len(Tr)
        /\ (StepStart \/ StepQuiet \/ StepBlock \/ StepRestart \/ StepOther)
        /\ l' = l + 1

Spec == Init /\ [][Next]_vars

\* reported once the whole file has been consumed
Done == l = Len(Tr) + 1 => PrintT(<<"DONE", Len(Tr), nIss>>)
=============================================================================

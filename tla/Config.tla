------------------------------ MODULE Config ------------------------------
(***************************************************************************)
(* The network configuration of PegNet main net as the specification       *)
(* understands it: activation heights of every rule change, issuance per   *)
(* block, the developer table, the one-time 2.0.4 supply, the hard-fork    *)
(* table.  The ledger specification (Ledger.tla) is parametric in these    *)
(* values and every scenario run sets them through the same package        *)
(* variables the daemon reads, so a change of a DEFAULT would go unnoticed *)
(* by the scenario runs; Trace_Config compares the defaults the daemon is  *)
(* built with (vh consts) with this table.  Each key belongs to the        *)
(* property whose statement it parametrises.                               *)
(***************************************************************************)
EXTENDS Integers, Sequences

MainnetAct ==
  [Pegnet |-> 206421, GradingV2 |-> 210330, TxConv |-> 213237, PEGPricing |-> 214287, OneWaypFCT |-> 220346,
   ConvLimit |-> 222270, PEGFloat |-> 222270, V4 |-> 231620, RCDe |-> 231620, V20 |-> 258796,
   DevRewards |-> 260118, SprSig |-> 260118, OneWaySmall |-> 274036, V202 |-> 274036, V204 |-> 288878,
   V204Burn |-> 294206, PIP10 |-> 295190]

\* property that depends on each activation height
ActOwner ==
  [Pegnet |-> "C11", GradingV2 |-> "C11", TxConv |-> "C13", PEGPricing |-> "C12", OneWaypFCT |-> "C13",
   ConvLimit |-> "C16", PEGFloat |-> "C12", V4 |-> "C16", RCDe |-> "C05", V20 |-> "C13",
   DevRewards |-> "C15", SprSig |-> "C11", OneWaySmall |-> "C13", V202 |-> "C15", V204 |-> "C15",
   V204Burn |-> "C15", PIP10 |-> "C07"]

\* PEG per block (whole PEG): conversion bank, miners, previous miners, asset holders, stakers, developers
PegPerBlock == [bank |-> 5000, miners |-> 5000, pastMiners |-> 4000, holders |-> 4500, stakers |-> 4500, developers |-> 2000]
PegOwner    == [bank |-> "C16", miners |-> "C11", pastMiners |-> "C11", holders |-> "C14", stakers |-> "C11", developers |-> "C15"]

SnapshotRate == 144        \* C14, C15
AvgPeriod    == 288        \* C07, C13
AvgRequired  == 144

\* developer table: percentage x 100, in payout order (C15)
DevPct == <<1000, 1900, 900, 900, 800, 800, 800, 800, 500, 500, 300, 300, 200, 300>>
DevAddr == << "FA2i9WZqJnaKbJxDY2AZdVgewE28uCcSwoFt8LJCMtGCC7tpCa2n", "FA37cGXKWMtf2MmHy3n1rMCYeLVuR5MpDaP4VXVeFavjJCJLYYez",
              "FA2wDRieaBrWeZHVuXXWUHY6t9nKCVCCKAMS5xknLUExuVAq3ziS", "FA3LDEA5fcskV6ZoFpKE84qPcjd7GYjEnswGHMZXL1V9d14wmgh3",
              "FA381EygeEXjZzB6hNvxbE4oSUzHZMfvGByMZoW5UrG1gHEKJcNK", "FA2DxkaTx1k2oGfbTqvwVMScSHHac7JFRiBjRngjRnqQpeBxsLhA",
              "FA2Ersb227gn7eWJ2HPsHZ5QqxfMBZhSjwixQ44dAS17CtRXSDRU", "FA2eFEVUzTQZxNp3LYYgjPaaHUfGmuvShhtBdGB2BBWMeByPCmJy",
              "FA2T72oxBxXvnujNdsVUshqFM2qV1W4nJy33nkrpxbYQV8rFbUPP", "FA2cEaq1GdGfFjhymiTEzW24DocZFZHNBqe9qkT18YPaL5ZzsgRi",
              "FA2YhZBZbc4V858ao7dJuAqRC4iwA3MrbZs7BHUPK7Mq19yYdMwZ", "FA3PYuvrsDvkhnekokVNrgLn7JiL5pChSBTtR9gZB1mVGFVB7JRD",
              "FA2Wy7AzeoBuaXYnGu67xa5zdNkmqTbPryUgpy7qVPvj46GRZkep", "FA2a2nXgkBg7pL5wrgm99rLZDGFs2T8jfTgMuia6ep8ZMkVtPe8E" >>

\* one-time 2.0.4 supply in whole units (C15)
MintSupply == [PEG |-> 334509613, pUSD |-> 3184409, pKRW |-> 118, pXAU |-> 1, pXAG |-> 599, pXBT |-> 2,
               pETH |-> 5476, pLTC |-> 2004, pRVN |-> 13124813, pXBC |-> 243, pBNB |-> 3461, pXLM |-> 45892,
               pADA |-> 1414096, pXMR |-> 682, pDASH |-> 6001, pZEC |-> 2696, pEOS |-> 2059, pLINK |-> 9110,
               pATOM |-> 101, pNEO |-> 2, pCRO |-> 164, pETC |-> 5, pVET |-> 22400000, pHT |-> 5, pDCR |-> 1049,
               pAUD |-> 9, pNOK |-> 59, pXTZ |-> 11117, pDOGE |-> 9870, pALGO |-> 457602, pDGB |-> 51175]

\* special addresses (C04, C15) and the number of tickers (C20)
BurnAddr    == "FA2BURNBABYBURNoooooooooooooooooooooooooooooooDGvNXy"
OldBurnAddr == "FA1y5ZGuHSLmf2TqNf6hVMkPiNGyQpQDTFJvDLRkKQaoPo4bmbgu"
MintAddr    == "FA3j16WPCiqsAFHVZcEoL85Khh5RhPCNe6PWHBKgUxrx8MAnbNoy"
FctBurnAddr == "EC2BURNFCT2PEGNETooo1oooo1oooo1oooo1oooo1oooo19wthin"
Tickers     == 62

\* hard-fork table and the build's own sync version (C19)
Forks == << [h |-> 0, min |-> -1], [h |-> 231620, min |-> 1], [h |-> 258796, min |-> 2] >>
SyncVersion == 2
=============================================================================

\* exhaustive check of the intended design against the property, and of the
\* code mirror against the intended design (difference classes)
CONSTANTS
    MaxSessions = 3
    MaxBlocks = 3
    MaxVersion = 2
    MinForkHeight = 0
    MaxForkHeight = 7
    DevLegacyBackfillOffByOne = FALSE
    LegacyAnywhere = TRUE
    AllowNoHf = TRUE
    SingleTable = FALSE
    ExplainEdge = TRUE
    ExplainZero = TRUE
    ExplainGap = TRUE
INIT Init
NEXT Next
\* AllInv = PropertyInv /\ CodeDiffClasses /\ DevModelFaithful /\ FixFaithful /\ FixDiffClasses on
\* verdict vectors computed once per state; the operator forms can be listed instead
\* (INVARIANTS TypeOK PropertyInv CodeDiffClasses DevModelFaithful FixFaithful FixDiffClasses VectorsOK).
\* Set ExplainEdge / ExplainZero / ExplainGap to FALSE to get a witness of that difference class.
INVARIANTS TypeOK AllInv
CHECK_DEADLOCK FALSE

SPECIFICATION Spec
CONSTANTS N = 7  P = 3  Reload = "height"  MaxRestarts = 1
INVARIANT UsedWindowIsDesign
CHECK_DEADLOCK FALSE

--------------------------- MODULE Trace_Convert ---------------------------
(* Conformance of the real conversion kernel (conversions.Convert, called by `vh convk` on a grid of arguments in the eras   *)
(* around the PIP-10 activation the daemon is built with) with Ledger.Convert: one trace line per call, one TLC step per     *)
(* line; every line whose recorded result differs from the specification's is printed as an ISSUE.                           *)
EXTENDS Integers, Sequences, FiniteSets, TLC, Json

INSTANCE Ledger WITH
  NZero <- 0, NAdd <- LAMBDA x, y : x + y, NSub <- LAMBDA x, y : x - y, NLeq <- LAMBDA x, y : x <= y,
  NMul <- LAMBDA x, y : x * y, NDiv <- LAMBDA x, y : x \div y, NOfNat <- LAMBDA n : n,
  NFitsI64 <- LAMBDA x : TRUE, NFitsU64 <- LAMBDA x : TRUE,
  Addrs <- {"a"}, Assets <- {"PEG", "pUSD"}, Act <- LAMBDA k : IF k = "PIP10" THEN 1 ELSE 0, AvgPeriod <- 2, SnapRate <- 144,
  StakeBank <- 5, BankBase <- 5, DevUnit <- 20, DevPct <- <<100>>, DevAddr <- LAMBDA i : "a",
  MintAmt <- LAMBDA t : 0, Deviations <- {}

Tr == TLCEval(ndJsonDeserialize("trace.ndjson"))
VARIABLES l, bad, badok
Expected(e) == Convert(e.era, e.amt, e.fr, e.fa, e.tr, e.ta)
Agrees(e) == LET c == Expected(e) IN c.ok = e.ok /\ (c.ok => c.v = e.v)
Init == l = 1 /\ bad = 0 /\ badok = 0
Next == /\ l <= Len(Tr)
        /\ l' = l + 1
        /\ badok' = IF Expected(Tr[l]).ok = Tr[l].ok THEN badok
                    ELSE badok + 1
        /\ bad' = IF Agrees(Tr[l]) THEN bad
                  ELSE IF bad < 5 /\ PrintT("ISSUE " \o ToJson(<<Tr[l], Expected(Tr[l])>>)) THEN bad + 1 ELSE bad + 1
Spec == Init /\ [][Next]_<<l, bad, badok>>
Report == l = Len(Tr) + 1 => PrintT(<<"DONE", Len(Tr), bad, badok>>)
=============================================================================

---------------------------- MODULE LedgerBlock ----------------------------
(***************************************************************************)
(* The per-block pipeline of the PegNet ledger (DESIGN.md section 2 and    *)
(* appendix D), built from the stage operators of Ledger.tla.              *)
(*                                                                         *)
(* ApplyBlock(S, in, O) is a *one-step obligation*: S is the state before  *)
(* the block, in the block's content, O the decisions observed from the    *)
(* implementation (batch statuses, recorded rates, dust recipient).  The   *)
(* operator computes, item by item, the decision the specification         *)
(* prescribes from the state reached so far, compares it with the observed *)
(* one, files every disagreement under the property whose statement it     *)
(* contradicts, and continues from the OBSERVED decision, so one           *)
(* divergence neither cascades nor is blamed on an unrelated property.     *)
(* With O == the specification's own decisions (MC use) it is the plain    *)
(* transition function.                                                    *)
(***************************************************************************)
EXTENDS Ledger

\* Observed decisions:
\*   O.exec  : function hash -> status after the block (for every hash recorded so far)
\*   O.rows  : function hash -> number of history batch rows
\*   O.rated : BOOLEAN, O.rates : [Assets -> Num]
\*   O.bal   : observed balances (only used to bind the dust recipient)
\* "absent" status = hash not in DOMAIN

Absent == -99
StatusOf(st, hsh) == IF hsh \in DOMAIN st THEN st[hsh].exec ELSE Absent
Issue(p, what) == <<p, what>>

\* verdicts are records [k |-> kind, c |-> code]
V(k, c) == [k |-> k, c |-> c]
WrapVerdict(x, h) == IF x = h THEN V("exec", h) ELSE IF x = -9 THEN V("unconv", 0) ELSE V("rej", x)

\* In "self" mode (O.self = TRUE: exhaustive model checking, scenario generation) the observed
\* decision IS the prescribed one; RejectedCode is the specification's own code for batches the
\* implementation drops silently.
RejectedCode == -6
SelfHeld(strict, prev, h) ==
  IF strict.k = "exec" THEN h
  ELSE IF strict.k \in {"replay", "unknown"} THEN prev
  ELSE IF strict.k \in {"unauth", "pegconv"} THEN -2
  ELSE IF strict.k = "unconv" THEN RejectedCode
  ELSE strict.c
SelfArrival(strict, prev, h) ==
  IF strict.k = "exec" THEN h
  ELSE IF strict.k \in {"ignore", "illformed", "replay", "dup", "unknown"} THEN prev
  ELSE IF strict.k = "hold" THEN 0
  ELSE strict.c

\* ------------------------------------------------------------------ held batches
HeldStrict(acc, e, h, rates, avgs) ==
  IF h >= Act("V20") /\ HasPegConv(e) THEN V("pegconv", -2)
  ELSE IF ~Authorized(e, h) THEN V("unauth", -2)
  ELSE IF e.hash \in acc.rel THEN V("replay", 0)
  ELSE IF ~InUniverse(e) THEN V("unknown", 0)
  ELSE WrapVerdict(BatchVerdict(acc.bal, e, h, rates, avgs), h)

HeldIssues(strict, prev, obs, e, h) ==
  IF strict.k = "unknown" THEN {}
  ELSE IF strict.k = "exec" THEN
     (IF obs = h THEN {}
      ELSE IF obs = 0 THEN {Issue("C07", <<"held batch not executed at first rated block", e.id, h>>),
                            \* the window [last rated, h) is visited once: a batch that is still pending afterwards was never considered
                            Issue("C06", <<"held batch was not considered in the one pass that visits its height", e.id, h>>)}
      ELSE {Issue("C13", <<"admissible funded conversion refused", e.id, h, obs>>)})
  ELSE IF strict.k = "replay" THEN
     (IF obs = prev THEN {}
      ELSE IF obs = h THEN {Issue("C06", <<"executed entry executed again", e.id, h>>)}
      ELSE {Issue("C17", <<"status of executed entry changed", e.id, h, obs>>)})
  ELSE IF strict.k = "unauth" THEN
     (IF obs = h THEN {Issue("C05", <<"held batch not authorised at execution height executed", e.id, h>>)}
      ELSE IF obs = 0 THEN {Issue("C17", <<"rejected batch still pending", e.id, h>>)} ELSE {})
  ELSE IF strict.k = "pegconv" THEN
     (IF obs = h THEN {Issue("C13", <<"conversion into PEG executed after 2.0", e.id, h>>)}
      ELSE IF obs = 0 THEN {Issue("C17", <<"rejected batch still pending", e.id, h>>)} ELSE {})
  ELSE IF strict.k = "unconv" THEN
     (IF obs = h THEN {Issue("C13", <<"unconvertible conversion executed", e.id, h>>)}
                      \* with PIP-10 the only admissible prices are min(spot, average) / max(spot, average): executing without an average is also mispricing
                      \cup (IF h >= Act("PIP10") THEN {Issue("C07", <<"conversion executed although no average exists to price it with", e.id, h>>)} ELSE {})
      ELSE IF obs = 0 /\ ~("DevConvertErrDropped" \in Deviations /\ h < Act("V20"))
           THEN {Issue("C17", <<"unconvertible batch stays pending forever", e.id, h>>)} ELSE {})
  ELSE IF strict.c = -1 THEN
     (IF obs = h THEN {Issue("C03", <<"batch executed without sufficient funds", e.id, h>>)}
      ELSE IF obs = 0 THEN {Issue("C17", <<"rejected batch still pending", e.id, h>>)} ELSE {})
  ELSE \* -3 -4 -5
     (IF obs = h THEN {Issue("C13", <<"forbidden conversion executed", e.id, h, strict.c>>)}
      ELSE IF obs = 0 THEN {Issue("C17", <<"rejected batch still pending", e.id, h>>)} ELSE {})

\* acc = [bal, st, rel, iss, to, taint]; to : hash -> converted amounts of executions done in this block
ProcHeld(acc, e, h, rates, avgs, O) ==
  LET prev == StatusOf(acc.st, e.hash)
      strict == HeldStrict(acc, e, h, rates, avgs)
      obs  == IF O.self THEN SelfHeld(strict, prev, h)
              ELSE IF e.hash \in DOMAIN O.exec THEN O.exec[e.hash] ELSE Absent
      iss  == HeldIssues(strict, prev, obs, e, h)
      doExec == obs = h /\ prev # h /\ InUniverse(e)
      x == IF doExec THEN ExecBatch(acc.bal, <<>>, e, h, rates, avgs, 1) ELSE [bal |-> acc.bal, to |-> <<>>]
  IN  [acc EXCEPT !.bal = x.bal,
                  !.st = IF e.hash \in DOMAIN acc.st /\ obs # Absent THEN [acc.st EXCEPT ![e.hash].exec = obs] ELSE acc.st,
                  !.rel = IF doExec THEN acc.rel \cup {e.hash} ELSE acc.rel,
                  !.to = IF doExec THEN (e.hash :> x.to) @@ acc.to ELSE acc.to,
                  !.visited = acc.visited \cup {e.hash},
                  !.peg = IF doExec /\ h >= Act("ConvLimit") /\ h < Act("V20") /\ HasPegConv(e) THEN Append(acc.peg, e) ELSE acc.peg,
                  !.iss = acc.iss \cup iss]

\* held batches of arrival height i, in insertion order
RECURSIVE ProcHeldAt(_, _, _, _, _, _, _, _)
ProcHeldAt(acc, S, i, k, h, rates, avgs, O) ==
  IF k > Len(S.holding) THEN acc
  ELSE IF S.holding[k].h = i /\ S.holding[k].hash \in DOMAIN S.ent
       THEN ProcHeldAt(ProcHeld(acc, S.ent[S.holding[k].hash], h, rates, avgs, O), S, i, k + 1, h, rates, avgs, O)
       ELSE ProcHeldAt(acc, S, i, k + 1, h, rates, avgs, O)

\* ------------------------------------------------------------------ legacy PEG requests (C16)
\* requests = sequence of [hash, idx, a, t, amt, want]; bank as Num
\* (deviation DevPegPassTakesAllTxs: the implementation passes EVERY transaction of a batch that contains a PEG
\*  request through the bank stage; another conversion of that batch is then counted against the bank in its own
\*  units and credited a second time)
PegWant(tx, h, rates, avgs) ==
  LET c == Convert(h, tx.amt, Rate(rates, tx.t), Rate(avgs, tx.t), Rate(rates, tx.conv), Rate(avgs, tx.conv))
  IN  IF c.ok THEN c.v ELSE NZero
RECURSIVE PegReqsOf(_, _, _, _, _)
PegReqsOf(e, h, rates, avgs, i) ==
  IF i > Len(e.txs) THEN <<>>
  ELSE (IF e.txs[i].kind = "conv" /\ (e.txs[i].conv = "PEG" \/ "DevPegPassTakesAllTxs" \in Deviations)
        THEN <<[hash |-> e.hash, hrank |-> e.hrank, idx |-> i - 1, a |-> e.txs[i].a, t |-> e.txs[i].t, amt |-> e.txs[i].amt,
                dst |-> e.txs[i].conv, want |-> PegWant(e.txs[i], h, rates, avgs)]>>
        ELSE <<>>) \o PegReqsOf(e, h, rates, avgs, i + 1)
RECURSIVE PegReqs(_, _, _, _, _)
PegReqs(es, h, rates, avgs, k) == IF k > Len(es) THEN <<>> ELSE PegReqsOf(es[k], h, rates, avgs, 1) \o PegReqs(es, h, rates, avgs, k + 1)

Refund(h, q, yield, rates) ==
  LET mx == Convert(h, q.amt, Rate(rates, q.t), Rate(rates, q.t), Rate(rates, q.dst), Rate(rates, q.dst))
      rest == IF mx.ok /\ NLeq(yield, mx.v) THEN NSub(mx.v, yield) ELSE NZero
      back == Convert(h, rest, Rate(rates, q.dst), Rate(rates, q.dst), Rate(rates, q.t), Rate(rates, q.t))
  IN  IF back.ok THEN back.v ELSE NZero

\* yields: floor share each, dust to the top request (ties: nondeterministic here, bound by observation)
PegYields(reqs, bank) ==
  LET I == 1..Len(reqs)
      total == SumSet([i \in I |-> reqs[i].want], I)
      full == NLt(total, bank)
      base == [i \in I |-> IF full THEN reqs[i].want
                           ELSE IF NIsZero(total) THEN NZero ELSE NMulDiv(reqs[i].want, bank, total)]
      paid == SumSet(base, I)
      top == {i \in I : \A j \in I : NLeq(reqs[j].want, reqs[i].want)}
  IN  [base |-> base, total |-> total, dust |-> IF full \/ I = {} THEN NZero ELSE NSub(bank, paid), top |-> top]

\* apply one set of requests; dustIdx chosen by the caller
RECURSIVE PegApply(_, _, _, _, _, _, _)
PegApply(bal, reqs, y, dustIdx, h, rates, i) ==
  IF i > Len(reqs) THEN bal
  ELSE LET q == reqs[i]
           yld == IF i = dustIdx THEN NAdd(y.base[i], y.dust) ELSE y.base[i]
           rf == Refund(h, q, yld, rates)
       IN  PegApply(Credit(Credit(bal, q.a, q.dst, yld), q.a, q.t, rf), reqs, y, dustIdx, h, rates, i + 1)

\* ------------------------------------------------------------------ new entries
ArrivalStrict(acc, e, h) ==
  IF ~e.canon \/ ~Authorized(e, h) THEN V("ignore", 0)
  ELSE IF ~WellFormed(e) THEN V("illformed", 0)
  ELSE IF e.hash \in acc.rel THEN V("replay", 0)
  ELSE IF e.hash \in DOMAIN acc.st THEN V("dup", 0)
  ELSE IF ~InUniverse(e) THEN V("unknown", 0)
  ELSE IF HasConv(e) THEN V("hold", 0)
  ELSE WrapVerdict(BatchVerdict(acc.bal, e, h, [t \in {} |-> NZero], [t \in {} |-> NZero]), h)

ArrivalIssues(strict, prev, prevRows, obs, obsRows, e, h) ==
  LET recorded == obsRows > prevRows \/ (obs # prev)
  IN
  IF strict.k = "unknown" THEN {}
  ELSE IF strict.k = "dup" THEN      \* copy of an entry that is recorded but not executed (pending / rejected): inert
     (IF recorded THEN {Issue("C06", <<"copy of a recorded entry was processed again", e.id, h, obs>>)} ELSE {})
  ELSE IF strict.k = "ignore" THEN
     (IF recorded THEN {Issue(IF e.auth = "Valid" /\ ~e.canon THEN "C20" ELSE "C05",
                              <<"entry that must be ignored was recorded", e.id, e.auth, h, obs>>)} ELSE {})
  ELSE IF strict.k = "illformed" THEN    \* outputs do not add up to the input: executing it creates or destroys value
     (IF recorded THEN {Issue("C20", <<"transaction whose outputs do not add up to its input was accepted", e.id, h, obs>>),
                        Issue("C04", <<"transfer whose credits differ from its debit was recorded", e.id, h, obs>>)}
                       \cup (IF OutputsExceedInput(e) THEN {Issue("C03", <<"batch paying out more than it takes from its input was recorded", e.id, h, obs>>)} ELSE {})
      ELSE {})
  ELSE IF strict.k = "illformed" THEN    \* outputs do not add up to the input: executing it creates or destroys value
     (IF recorded THEN {Issue("C20", <<"transaction whose outputs do not add up to its input was accepted", e.id, h, obs>>),
                        Issue("C04", <<"transfer whose credits differ from its debit was recorded", e.id, h, obs>>)}
                       \cup (IF OutputsExceedInput(e) THEN {Issue("C03", <<"batch paying out more than it takes from its input was recorded", e.id, h, obs>>)} ELSE {})
      ELSE {})
  ELSE IF strict.k = "replay" THEN
     (IF obs = prev THEN {} ELSE {Issue("C06", <<"copy of an executed entry changed its status", e.id, h, obs>>)})
  ELSE IF strict.k = "hold" THEN
     (IF obs = 0 THEN {}
      ELSE IF obs = h THEN {Issue("C07", <<"conversion executed in its own block", e.id, h>>)}
      ELSE IF obs = Absent THEN {Issue("C13", <<"valid conversion entry not recorded", e.id, h>>)}
      ELSE {Issue("C13", <<"conversion rejected on arrival", e.id, h, obs>>)})
  ELSE IF strict.k = "exec" THEN
     (IF obs = h THEN {} ELSE {Issue("U", <<"funded transfer not executed", e.id, h, obs>>)})
  ELSE \* transfer without funds
     (IF obs = h THEN {Issue("C03", <<"transfer executed without sufficient funds", e.id, h>>)}
      ELSE IF obs = 0 THEN {Issue("C17", <<"rejected transfer shown as pending", e.id, h>>)} ELSE {})

ProcArrival(acc, e, h, rates, avgs, ratedNow, O) ==
  LET prev == StatusOf(acc.st, e.hash)
      prevRows == IF e.hash \in DOMAIN acc.st THEN acc.st[e.hash].rows ELSE 0
      strict == ArrivalStrict(acc, e, h)
      obs  == IF O.self THEN SelfArrival(strict, prev, h)
              ELSE IF e.hash \in DOMAIN O.exec THEN O.exec[e.hash] ELSE Absent
      obsRows == IF O.self THEN (IF obs = Absent THEN 0 ELSE 1)
                 ELSE IF e.hash \in DOMAIN O.rows THEN O.rows[e.hash] ELSE 0
      iss == ArrivalIssues(strict, prev, prevRows, obs, obsRows, e, h)
      doExec == obs = h /\ prev # h /\ InUniverse(e) /\ (HasConv(e) => ratedNow)
      x == IF doExec THEN ExecBatch(acc.bal, <<>>, e, h, rates, avgs, 1) ELSE [bal |-> acc.bal, to |-> <<>>]
      st1 == IF obs = Absent THEN acc.st
             ELSE IF e.hash \in DOMAIN acc.st THEN [acc.st EXCEPT ![e.hash].exec = obs, ![e.hash].rows = obsRows]
             ELSE (e.hash :> [h |-> h, exec |-> obs, rows |-> obsRows]) @@ acc.st
  IN  [acc EXCEPT !.bal = x.bal, !.st = st1,
                  !.rel = IF doExec THEN acc.rel \cup {e.hash} ELSE acc.rel,
                  !.to = IF doExec THEN (e.hash :> x.to) @@ acc.to ELSE acc.to,
                  !.visited = acc.visited \cup {e.hash},
                  !.newHeld = IF obs = 0 /\ prev = Absent /\ HasConv(e) THEN Append(acc.newHeld, e.hash) ELSE acc.newHeld,
                  !.taint = acc.taint \/ (obs = h /\ prev # h /\ HasConv(e) /\ ~ratedNow),
                  !.iss = acc.iss \cup iss]

RECURSIVE ProcArrivals(_, _, _, _, _, _, _, _)
ProcArrivals(acc, es, k, h, rates, avgs, ratedNow, O) ==
  IF k > Len(es) THEN acc
  ELSE ProcArrivals(ProcArrival(acc, es[k], h, rates, avgs, ratedNow, O), es, k + 1, h, rates, avgs, ratedNow, O)

\* ------------------------------------------------------------------ rewards, burns
RECURSIVE PayWinners(_, _, _)
PayWinners(bal, ws, i) == IF i > Len(ws) THEN bal ELSE PayWinners(Credit(bal, ws[i].a, "PEG", ws[i].pay), ws, i + 1)

RECURSIVE PaySprWinners(_, _, _, _)
PaySprWinners(bal, xs, idx, i) ==
  IF i > Len(idx) THEN bal ELSE PaySprWinners(Credit(bal, xs[idx[i]].coinbase, "PEG", SprPayout), xs, idx, i + 1)

ValidBurn(b) == b.shape = "ok"
RECURSIVE PayBurns(_, _, _)
PayBurns(bal, bs, i) == IF i > Len(bs) THEN bal
                        ELSE PayBurns(IF ValidBurn(bs[i]) THEN Credit(bal, bs[i].a, "pFCT", bs[i].amt) ELSE bal, bs, i + 1)

\* ------------------------------------------------------------------ the block
\* Stage 6-8 for one arrival height i of the window (and, before V4, its own PEG-request set)
PegDustIdx(reqs, y) ==
  IF y.top = {} THEN 0
  ELSE CHOOSE i \in y.top : \A j \in y.top :
         \/ reqs[i].hrank < reqs[j].hrank
         \/ (reqs[i].hrank = reqs[j].hrank /\ reqs[i].idx <= reqs[j].idx)

PegStage(acc, h, rates, avgs, bank) ==
  LET reqs == PegReqs(acc.peg, h, rates, avgs, 1)
      y == PegYields(reqs, bank)
      d == PegDustIdx(reqs, y)
      I == 1..Len(reqs)
      paid == SumSet([i \in I |-> IF i = d THEN NAdd(y.base[i], y.dust) ELSE y.base[i]], I)
      outs == [i \in I |-> LET yld == IF i = d THEN NAdd(y.base[i], y.dust) ELSE y.base[i]
                           IN  [hash |-> reqs[i].hash, idx |-> reqs[i].idx, a |-> reqs[i].a, yield |-> yld, refund |-> Refund(h, reqs[i], yld, rates)]]
  IN  [acc EXCEPT !.bal = PegApply(acc.bal, reqs, y, d, h, rates, 1), !.peg = <<>>,
                  !.pegOut = acc.pegOut \o outs, !.pegPaid = NAdd(acc.pegPaid, paid), !.pegReq = NAdd(acc.pegReq, y.total)]

RECURSIVE HoldingWindow(_, _, _, _, _, _, _)
HoldingWindow(acc, S, i, h, rates, avgs, O) ==
  IF i >= h THEN acc
  ELSE LET a1 == ProcHeldAt(acc, S, i, 1, h, rates, avgs, O)
           a2 == IF h >= Act("ConvLimit") /\ h < Act("V4") THEN PegStage(a1, h, rates, avgs, BankBase) ELSE a1
       IN  HoldingWindow(a2, S, i + 1, h, rates, avgs, O)

RECURSIVE AppendHeld(_, _, _, _)
AppendHeld(hold, hs, h, k) == IF k > Len(hs) THEN hold ELSE AppendHeld(Append(hold, [hash |-> hs[k], h |-> h]), hs, h, k + 1)

RECURSIVE AddEnts(_, _, _)
AddEnts(ent, es, k) == IF k > Len(es) THEN ent
                       ELSE AddEnts(IF es[k].hash \in DOMAIN ent THEN ent ELSE (es[k].hash :> es[k]) @@ ent, es, k + 1)

\* Result: [S (expected state after the block, continuing from the observed decisions), iss, info]
\* avgMode: "design" = the averaging window the design prescribes (AvgWindow: a function of the recorded rates only);
\*          "cache"  = the window as the implementation's in-memory cache maintained it before the repair.
ApplyBlockM(S, in, O, avgMode) ==
  LET h == in.h
      \* stages 1-2: one-time adjustments
      b2 == MintStage(NullifyBurn(S.bal, h), h)
      \* stages 3-4: grading verdict and rates, from the committed state S
      R == RatesOf(S, in)
      sprIdx == SprWinnerIdx(S, in)
      rIss == IF O.self THEN {} ELSE
              (IF R.rated # O.rated
                 THEN {Issue("C12", <<"block rated/unrated disagrees with the winning records", h, R.rated, O.rated>>)}
                 ELSE IF R.rated /\ R.r # O.rates
                      THEN {Issue("C12", <<"recorded rates differ from the combined winner rates", h,
                                           {t \in Assets : R.r[t] # O.rates[t]}>>)} ELSE {})
              \cup (IF in.opr.present /\ in.opr.gradeVer # OPRGraderVersion(h)
                      THEN {Issue("GEN", <<"oracle graded with the wrong OPR version", h>>)} ELSE {})
              \cup (IF in.spr.present /\ h >= Act("V20") /\ in.spr.gradeVer # SPRGraderVersion(h)
                      THEN {Issue("GEN", <<"oracle graded with the wrong SPR version", h>>)} ELSE {})
      ratedNow == IF O.self THEN R.rated ELSE O.rated      \* continue from the observed decision
      rates == IF O.self THEN R.r ELSE O.rates
      S3 == [S EXCEPT !.bal = b2, !.rates = IF ratedNow THEN (h :> rates) @@ S.rates ELSE S.rates]
      \* stage 5: holder staking
      snapNow == IsSnapshot(h)
      sr == SnapshotRates(S3, h, ratedNow)
      past2 == IF snapNow THEN S.snapCur ELSE S.snapPast
      cur2  == IF snapNow THEN b2 ELSE S.snapCur
      sp == IF snapNow /\ sr.ok THEN StakePayouts(Stakes(past2, cur2, sr.r, h))
            ELSE [stakers |-> {}, base |-> [a \in Addrs |-> NZero], dust |-> NZero, top |-> {}]
      b5 == [a \in Addrs |-> [b2[a] EXCEPT !["PEG"] = NAdd(@, sp.base[a])]]
      \* stages 6-8: bank row, held batches, PEG requests (only in a rated block, from TxConv)
      txOn == h >= Act("TxConv")
      lr == LastRated(S, h)
      cache2 == IF ratedNow /\ txOn /\ lr > 0 THEN CacheStep(S, S.cache, lr) ELSE S.cache
      avgs == IF lr = 0 THEN [t \in Assets |-> NZero]
              ELSE IF avgMode = "cache" THEN AveragesFromCache(S, cache2) ELSE Averages(S, lr)
      acc0 == [bal |-> b5, st |-> S.st, rel |-> S.rel, iss |-> {}, to |-> EmptyFn, visited |-> {},
               peg |-> <<>>, pegOut |-> <<>>, pegPaid |-> NZero, pegReq |-> NZero,
               newHeld |-> <<>>, taint |-> FALSE]
      bankRow == ratedNow /\ txOn /\ h >= Act("V4") /\ h < Act("V20")
      acc1 == IF ratedNow /\ txOn THEN HoldingWindow(acc0, S, lr, h, rates, avgs, O) ELSE acc0
      acc2 == IF bankRow THEN PegStage(acc1, h, rates, avgs, BankBase) ELSE acc1
      \* stage 9: entries of this block
      acc3 == IF txOn THEN ProcArrivals(acc2, in.entries, 1, h, rates, avgs, ratedNow, O) ELSE acc2
      \* stages 10-12: burns, rewards, developer payouts
      b10 == IF h < Act("V20") THEN PayBurns(acc3.bal, in.burns, 1) ELSE acc3.bal
      b11 == IF in.opr.present THEN PayWinners(b10, in.opr.winners, 1) ELSE b10
      b12 == IF h >= Act("V20") THEN PaySprWinners(b11, in.spr.sprs, sprIdx, 1) ELSE b11
      b13 == IF DevPayoutDue(h) THEN DevStage(b12, h, 1) ELSE b12
      \* staking dust: one of the tied top stakers; bound by the observation
      dustTo == IF NIsZero(sp.dust) \/ sp.top = {} THEN "" ELSE
                LET fit == IF O.self THEN {} ELSE {d \in sp.top : NAdd(b13[d]["PEG"], sp.dust) = O.bal[d]["PEG"]}
                IN  IF fit # {} THEN CHOOSE d \in fit : TRUE ELSE CHOOSE d \in sp.top : TRUE
      bFin == IF dustTo = "" THEN b13 ELSE Credit(b13, dustTo, "PEG", sp.dust)
      \* statuses that changed although the entry was not up for consideration in this block
      stray == IF O.self THEN {} ELSE {x \in DOMAIN O.exec : x \notin acc3.visited /\ O.exec[x] # StatusOf(S.st, x)}
      sIss == {Issue("C07", <<"status changed outside the block that must consider the batch", x, h, O.exec[x]>>) : x \in stray}
              \cup (IF ~ratedNow /\ \E x \in stray : O.exec[x] = h
                      THEN {Issue("C12", <<"pending conversion executed in a block without rates", h>>)} ELSE {})
      stFin == [x \in DOMAIN acc3.st |-> IF x \in stray THEN [acc3.st[x] EXCEPT !.exec = O.exec[x]] ELSE acc3.st[x]]
      bankFin == IF bankRow THEN (h :> [amt |-> BankBase, used |-> acc2.pegPaid, req |-> acc2.pegReq]) @@ S.bank ELSE S.bank
      Sn == [bal |-> bFin,
             rates |-> S3.rates,
             holding |-> AppendHeld(S.holding, acc3.newHeld, h, 1),
             rel |-> acc3.rel,
             st |-> stFin,
             ent |-> AddEnts(S.ent, in.entries, 1),
             bank |-> bankFin, cache |-> cache2,
             snapCur |-> cur2, snapPast |-> past2]
      \* deviation DevBandErrorSkipsBlock: in [V20, V202) an OPR outside the SPR band makes SyncBlock return
      \* success right after the grade rows are written: no rates, no transactions, no rewards for this height
      skipRest == /\ "DevBandErrorSkipsBlock" \in Deviations /\ h >= Act("V20") /\ h < Act("V202")
                  /\ in.opr.present /\ Len(in.opr.winners) > 0 /\ Len(sprIdx) > 0 /\ ~R.rated
  IN  IF skipRest THEN [S |-> [S EXCEPT !.bal = b2], iss |-> rIss,
                        info |-> [taint |-> FALSE, to |-> EmptyFn, pegOut |-> <<>>, sprIdx |-> <<>>, stakers |-> {}, ratedSpec |-> FALSE,
                                  visited |-> {}, bankRow |-> FALSE, avgs |-> avgs, avgsDiffer |-> FALSE, skipped |-> TRUE]]
      ELSE
      [S |-> Sn, iss |-> rIss \cup acc3.iss \cup sIss,
       info |-> [taint |-> acc3.taint \/ stray # {}, to |-> acc3.to, pegOut |-> acc2.pegOut, sprIdx |-> sprIdx,
                 stakers |-> sp.stakers, ratedSpec |-> R.rated, visited |-> acc3.visited, bankRow |-> bankRow,
                 avgs |-> avgs, avgsDiffer |-> lr > 0 /\ AveragesFromCache(S, cache2) # Averages(S, lr), skipped |-> FALSE]]

ApplyBlock(S, in, O) == ApplyBlockM(S, in, O, "design")

=============================================================================

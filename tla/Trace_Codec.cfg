CONSTANT Dev = {}
INIT Init
NEXT Next
INVARIANT AllPass
CHECK_DEADLOCK FALSE

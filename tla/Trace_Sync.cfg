SPECIFICATION Spec
CONSTANT TDeviations = {}
INVARIANTS DiskIsPrefix OnceInOrder MemNotBehind Done
CHECK_DEADLOCK FALSE

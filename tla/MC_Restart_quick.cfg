SPECIFICATION Spec
CONSTANTS N = 7  P = 3  Reload = "run"  MaxRestarts = 2
INVARIANT UsedWindowIsDesign
CHECK_DEADLOCK FALSE

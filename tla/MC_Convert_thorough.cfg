SPECIFICATION Spec
CONSTANTS Amts = {0, 1, 2, 3, 5, 7, 10, 11, 100, 101, 1000, 46340}  Rates = {0, 1, 2, 3, 5, 7, 10, 11, 100, 101, 1000, 46340}
INVARIANTS RefusedIff ExactFloor ValueNonIncrease NeverMoreThanSpot AvgEqualSpotSame RoundTrip Monotone ZeroIn Identity
CHECK_DEADLOCK FALSE

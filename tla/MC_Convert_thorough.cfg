SPECIFICATION Spec
CONSTANTS Amts = {0, 1, 2, 3, 4, 5, 6, 7, 9, 10, 11, 99, 100, 101, 1000, 46340}  Rates = {0, 1, 2, 3, 4, 5, 6, 7, 9, 10, 11, 99, 100, 101, 1000, 46340}
INVARIANTS RefusedIff ExactFloor ValueNonIncrease NeverMoreThanSpot AvgEqualSpotSame RoundTrip Monotone ZeroIn Identity
CHECK_DEADLOCK FALSE

SPECIFICATION Spec
CONSTANTS N = 4  P = 3  Locked = TRUE  PublishEarly = FALSE  MaxCalls = 3  Readers = {"r1", "r2"}
INVARIANTS LedgerUnaffected RespCommitted NoTornCache
CHECK_DEADLOCK FALSE

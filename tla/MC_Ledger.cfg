SPECIFICATION Spec
CONSTANTS Depth = 3  PairSet = 1
INVARIANTS NoNegative AtMostOnce NoUnauthorized ConvTiming AdmissionOK ExecutedIffRel PendingIffHeld SupplyOK ValueOK

SPECIFICATION Spec
CONSTANTS Amts = {0, 1, 2, 3, 5, 7, 10, 100}  Rates = {0, 1, 2, 3, 5, 7, 10}
INVARIANTS RefusedIff ExactFloor ValueNonIncrease NeverMoreThanSpot AvgEqualSpotSame RoundTrip Monotone ZeroIn Identity
CHECK_DEADLOCK FALSE

------------------------------- MODULE Codec -------------------------------
(***************************************************************************)
(* C20  Canonical encoding and exact amounts at the edges.                 *)
(*                                                                         *)
(* Pure (constant-level) operators that state the INTENDED behaviour of    *)
(*   (a) the command line decimal-amount parser (cmd.FactoidToFactoshi),   *)
(*   (b) the FAT-2 batch acceptance rule (fat2.NewTransactionBatch) and    *)
(*       the re-encoding round trip.                                       *)
(*                                                                         *)
(* TLC integers are 32 bit, therefore every amount is a sequence of        *)
(* decimal digits (most significant first).  Canonical digit sequence: no  *)
(* leading zeros, zero = <<0>>.  Only strip / concatenate / compare / add  *)
(* are needed; there is no multiplication anywhere.                        *)
(***************************************************************************)
EXTENDS Integers, Sequences, FiniteSets, TLC

-----------------------------------------------------------------------------
(* digit sequences *)

RECURSIVE StripZ(_)
StripZ(d) == IF Len(d) > 1 /\ d[1] = 0 THEN StripZ(Tail(d)) ELSE d

Canon(d) == IF d = <<>> THEN <<0>> ELSE StripZ(d)

IsDigits(d) == \A i \in DOMAIN d : d[i] \in 0..9
IsCanon(d)  == d # <<>> /\ IsDigits(d) /\ (Len(d) > 1 => d[1] # 0)

(* a < b for canonical digit sequences: length first, then lexicographic *)
DLT(a, b) ==
  \/ Len(a) < Len(b)
  \/ /\ Len(a) = Len(b)
     /\ \E i \in 1..Len(a) : /\ a[i] < b[i]
                             /\ \A j \in 1..(i-1) : a[j] = b[j]
DLE(a, b) == a = b \/ DLT(a, b)

Rev(s) == [i \in 1..Len(s) |-> s[Len(s) + 1 - i]]

RECURSIVE AddRev(_, _, _)
AddRev(x, y, c) ==
  IF x = <<>> /\ y = <<>> THEN (IF c = 0 THEN <<>> ELSE <<c>>)
  ELSE LET dx == IF x = <<>> THEN 0 ELSE x[1]
           dy == IF y = <<>> THEN 0 ELSE y[1]
           s  == dx + dy + c
       IN <<s % 10>> \o AddRev(IF x = <<>> THEN <<>> ELSE Tail(x),
                               IF y = <<>> THEN <<>> ELSE Tail(y), s \div 10)

DAdd(a, b) == Canon(Rev(AddRev(Rev(a), Rev(b), 0)))

RECURSIVE DSum(_)
DSum(ds) == IF ds = <<>> THEN <<0>> ELSE DAdd(ds[1], DSum(Tail(ds)))

Zeros(n) == [i \in 1..n |-> 0]

(* 2^64 = 18446744073709551616 , 2^63 = 9223372036854775808 *)
TwoTo64  == <<1,8,4,4,6,7,4,4,0,7,3,7,0,9,5,5,1,6,1,6>>
TwoTo63  == <<9,2,2,3,3,7,2,0,3,6,8,5,4,7,7,5,8,0,8>>
MaxInt64 == <<9,2,2,3,3,7,2,0,3,6,8,5,4,7,7,5,8,0,7>>

-----------------------------------------------------------------------------
(* (a) decimal amounts                                                     *)
(*                                                                         *)
(* An offered string is a sequence of tokens:  0..9 = that digit,          *)
(* 10 = '.', 11 = '-', 12 = '+', 13 = ' ', 14 = 'e', 15 = 'x', 16 = LF.    *)
(* Abstract(tok) is the abstract decimal string the property talks about:  *)
(* [whole, hasDot, frac, junk]; junk = "none" | "dots" (a second '.')      *)
(* | "junk" (any token that is neither digit nor '.').                     *)

DOT == 10
TokenSet == 0..16

FirstDot(tok) == CHOOSE i \in DOMAIN tok : tok[i] = DOT /\ \A j \in 1..(i-1) : tok[j] # DOT

Abstract(tok) ==
  LET dots == {i \in DOMAIN tok : tok[i] = DOT}
      bad  == {i \in DOMAIN tok : tok[i] \notin 0..10}
  IN IF bad # {} THEN [whole |-> <<>>, hasDot |-> FALSE, frac |-> <<>>, junk |-> "junk"]
     ELSE IF Cardinality(dots) > 1
          THEN [whole |-> <<>>, hasDot |-> TRUE, frac |-> <<>>, junk |-> "dots"]
     ELSE IF dots = {}
          THEN [whole |-> tok, hasDot |-> FALSE, frac |-> <<>>, junk |-> "none"]
     ELSE LET p == FirstDot(tok)
          IN [whole |-> SubSeq(tok, 1, p - 1), hasDot |-> TRUE,
              frac |-> SubSeq(tok, p + 1, Len(tok)), junk |-> "none"]

Rej == [ok |-> FALSE, v |-> <<>>]

(* The grammar ^([0-9]+)?(\.[0-9]+)?$ : no junk, at most one dot, a dot is *)
(* followed by at least one digit.  The whole part may be empty.           *)
WellFormed(r) == r.junk = "none" /\ (r.hasDot => r.frac # <<>>)

ExactValue(r) == Canon(r.whole \o r.frac \o Zeros(8 - Len(r.frac)))

ParseAmountRec(r) ==
  IF ~WellFormed(r) THEN Rej
  ELSE IF Len(r.frac) > 8 THEN Rej                \* finer than one base unit
  ELSE LET v == ExactValue(r)
       IN IF DLT(v, TwoTo64) THEN [ok |-> TRUE, v |-> v]
          ELSE Rej                                \* does not fit: REJECT, never wrap

ParseAmount(tok) == ParseAmountRec(Abstract(tok))

(* Where the property is silent ("exactly OR rejected"): a representable   *)
(* amount may also be refused when                                         *)
(*   - it does not fit a signed 64 bit balance (every balance and every    *)
(*     FAT-2 amount is bounded by MaxInt64), or                            *)
(*   - the whole part is the empty string ("" and ".5"): accepted by the   *)
(*     regular expression's optional group only.                           *)
(* Everything else that is well formed must be converted exactly.          *)
AmountMayReject(r) ==
  /\ ParseAmountRec(r).ok
  /\ \/ r.whole = <<>>
     \/ ~DLT(ParseAmountRec(r).v, TwoTo63)

(* verdict on one observation obs = [ok, v] of the real parser *)
AmountFailClass(tok, obs) ==
  LET r == Abstract(tok)
      p == ParseAmountRec(r)
  IN IF obs.ok
     THEN IF p.ok THEN (IF obs.v = p.v THEN "pass" ELSE "amount-inexact")
          ELSE IF WellFormed(r) /\ Len(r.frac) <= 8 THEN "amount-overflow"
          ELSE IF WellFormed(r) THEN "amount-precision"
          ELSE "amount-malformed-accepted"
     ELSE IF ~p.ok \/ AmountMayReject(r) THEN "pass" ELSE "amount-spurious-reject"

-----------------------------------------------------------------------------
(* (b) FAT-2 batch shapes                                                  *)
(*                                                                         *)
(* shape  = [bkeys, ver, ws, ukind, txs]                                   *)
(*   bkeys : sequence of key names as they appear in the top level object  *)
(*   ver   : "1" | "0" | "2" | "str"                                       *)
(*   ws    : "none" | "spaced"   (insignificant white space)               *)
(*   ukind : how a key named "unknown" is rendered ("short" | "pad28" |    *)
(*           "pad13": an unknown member of exactly that many bytes)        *)
(*   txs   : sequence of tx shapes                                         *)
(* tx     = [tkeys, ikeys, iaddr, itype, iamt, trs, conv]                  *)
(*   tkeys : keys of the transaction object, ikeys : keys of its input     *)
(*   iaddr : "A" | "B" (two ordinary addresses) | "Z" (coinbase / burn     *)
(*           address of the all-zero key) | "BAD" (checksum error)         *)
(*   itype, conv : ticker text; "num" = a JSON number instead of a string  *)
(*   iamt  : amount = [f, d]  f = "int" | "neg" | "frac" | "quoted" |      *)
(*           "exp" | "lz" (leading zero), d = digits                       *)
(*   trs   : sequence of [keys, addr, amt]                                 *)
(* A key name that is not one of the lower-case known names is an unknown  *)
(* key (JSON member names are case sensitive): "Version", "INPUT", ...     *)

KnownTickers ==
  {"PEG","pUSD","pEUR","pJPY","pGBP","pCAD","pCHF","pINR","pSGD","pCNY","pHKD",
   "pKRW","pBRL","pPHP","pMXN","pXAU","pXAG","pXBT","pETH","pLTC","pRVN","pXBC",
   "pFCT","pBNB","pXLM","pADA","pXMR","pDASH","pZEC","pDCR",
   "pAUD","pNZD","pSEK","pNOK","pRUB","pZAR","pTRY","pEOS","pLINK","pATOM","pBAT","pXTZ",
   "pHBAR","pNEO","pCRO","pETC","pONT","pDOGE","pVET","pHT","pALGO","pDGB","pAED",
   "pARS","pTWD","pRWF","pKES","pUGX","pTZS","pBIF","pETB","pNGN"}

BatchKeys == {"version", "transactions"}      \* required
BatchOpt  == {"metadata"}
TxOpt     == {"metadata"}
InputKeys == {"address", "amount", "type"}
TrKeys    == {"address", "amount"}

Rng(s) == {s[i] : i \in DOMAIN s}
NoDup(s) == \A i, j \in DOMAIN s : i # j => s[i] # s[j]

(* exactly the required keys, optionally the optional ones, each once, in  *)
(* any order (the property does not fix an order)                          *)
KeysOK(ks, req, opt) == NoDup(ks) /\ req \subseteq Rng(ks) /\ Rng(ks) \subseteq (req \cup opt)

(* PROPERTY TEXT vs CODE.  The property says "amounts within int64".  The  *)
(* code bounds only INPUT amounts (TransactionBatch.Validate, and only     *)
(* there - ValidData, used by MarshalJSON and ValidatePegTx, has no bound);*)
(* transfer amounts are bounded indirectly because their sum must equal    *)
(* the input amount (checked without wrap-around).  The accepted sets      *)
(* coincide; the spec follows the property text and bounds every amount.   *)
AmtOK(a) == a.f = "int" /\ IsCanon(a.d) /\ DLE(a.d, MaxInt64)

TrOK(t) ==
  /\ KeysOK(t.keys, TrKeys, {})
  /\ t.addr \in {"A", "B", "Z"}             \* any well-formed address (burning is allowed)
  /\ AmtOK(t.amt)

HasTransfers(tx)  == "transfers" \in Rng(tx.tkeys)
HasConversion(tx) == "conversion" \in Rng(tx.tkeys)

TxOK(tx) ==
  /\ NoDup(tx.tkeys)
  /\ "input" \in Rng(tx.tkeys)
  /\ Rng(tx.tkeys) \subseteq {"input", "transfers", "conversion"} \cup TxOpt
  /\ HasTransfers(tx) # HasConversion(tx)            \* exactly one of the two
  /\ KeysOK(tx.ikeys, InputKeys, {})
  /\ tx.iaddr \in {"A", "B"}                         \* well formed and not the burn address
  /\ tx.itype \in KnownTickers
  /\ AmtOK(tx.iamt)
  /\ HasTransfers(tx) =>
       /\ tx.trs # <<>>
       /\ \A i \in DOMAIN tx.trs : TrOK(tx.trs[i])
       /\ DSum([i \in DOMAIN tx.trs |-> tx.trs[i].amt.d]) = tx.iamt.d
  /\ HasConversion(tx) =>
       /\ tx.conv \in KnownTickers
       /\ tx.conv # tx.itype

Canonical(s) ==
  /\ KeysOK(s.bkeys, BatchKeys, BatchOpt)
  /\ s.ver = "1"
  /\ s.txs # <<>>
  /\ \A i \in DOMAIN s.txs : TxOK(s.txs[i])
  /\ Cardinality({s.txs[i].iaddr : i \in DOMAIN s.txs}) = 1     \* one input address

(* Where the property is silent: batch level "metadata" is a known key of  *)
(* the format, the implementation nevertheless refuses every batch that    *)
(* carries it (its length accounting forgets the member).  Refusing is not *)
(* a C20 violation, so the member makes the verdict nondeterministic.      *)
MustAccept(s) == Canonical(s) /\ "metadata" \notin Rng(s.bkeys)

(* ---- meaning of a canonical shape: the transactions it carries -------- *)
TxMeaning(tx) ==
  [iaddr |-> tx.iaddr, itype |-> tx.itype, iamt |-> tx.iamt.d,
   trs  |-> IF HasTransfers(tx)
            THEN [i \in DOMAIN tx.trs |-> [addr |-> tx.trs[i].addr, amt |-> tx.trs[i].amt.d]]
            ELSE <<>>,
   conv |-> IF HasConversion(tx) THEN tx.conv ELSE "",
   meta |-> IF "metadata" \in Rng(tx.tkeys) THEN "memo" ELSE "none"]

Txs(s) == [i \in DOMAIN s.txs |-> TxMeaning(s.txs[i])]

(* ---- the canonical encoding of a list of transactions ----------------- *)
EncodeTx(m) ==
  [tkeys |-> <<"input">> \o (IF m.conv = "" THEN <<"transfers">> ELSE <<"conversion">>)
                         \o (IF m.meta = "none" THEN <<>> ELSE <<"metadata">>),
   ikeys |-> <<"address", "amount", "type">>,
   iaddr |-> m.iaddr, itype |-> m.itype, iamt |-> [f |-> "int", d |-> m.iamt],
   trs   |-> [i \in DOMAIN m.trs |-> [keys |-> <<"address", "amount">>, addr |-> m.trs[i].addr,
                                      amt |-> [f |-> "int", d |-> m.trs[i].amt]]],
   conv  |-> m.conv]

Encode(ms) ==
  [bkeys |-> <<"version", "transactions">>, ver |-> "1", ws |-> "none", ukind |-> "short",
   txs |-> [i \in DOMAIN ms |-> EncodeTx(ms[i])]]

(* conv of a transfer shape is not rendered; ignore it when comparing      *)
RoundTrip(s) ==
  Canonical(s) => /\ MustAccept(Encode(Txs(s)))
                  /\ Txs(Encode(Txs(s))) = Txs(s)

(* ---- case folding, used only to CLASSIFY a wrongly accepted shape ----- *)
FoldKey(k) ==
  CASE k \in {"Version", "VERSION"}            -> "version"
    [] k \in {"Transactions", "TRANSACTIONS"}  -> "transactions"
    [] k \in {"Metadata", "METADATA"}          -> "metadata"
    [] k \in {"Input", "INPUT"}                -> "input"
    [] k \in {"Transfers", "TRANSFERS"}        -> "transfers"
    [] k \in {"Conversion", "CONVERSION"}      -> "conversion"
    [] k \in {"Address", "ADDRESS"}            -> "address"
    [] k \in {"Amount", "AMOUNT"}              -> "amount"
    [] k \in {"Type", "TYPE"}                  -> "type"
    [] OTHER -> k
FoldKeys(ks) == [i \in DOMAIN ks |-> FoldKey(ks[i])]
FoldTr(t) == [keys |-> FoldKeys(t.keys), addr |-> t.addr, amt |-> t.amt]
FoldTx(tx) ==
  [tkeys |-> FoldKeys(tx.tkeys), ikeys |-> FoldKeys(tx.ikeys), iaddr |-> tx.iaddr,
   itype |-> tx.itype, iamt |-> tx.iamt,
   trs |-> [i \in DOMAIN tx.trs |-> FoldTr(tx.trs[i])], conv |-> tx.conv]
FoldShape(s) ==
  [bkeys |-> FoldKeys(s.bkeys), ver |-> s.ver, ws |-> s.ws, ukind |-> s.ukind,
   txs |-> [i \in DOMAIN s.txs |-> FoldTx(s.txs[i])]]

(* verdict on one observation of the real decoder.                         *)
(* obs = [ok, reenc, ok2, dec1, dec2]: accepted by NewTransactionBatch;    *)
(* json.Marshal of the decoded batch succeeded; the re-encoded entry was   *)
(* accepted again; transactions of the first / second decode (normalised). *)
BatchFailClass(s, obs) ==
  IF obs.ok
  THEN IF ~Canonical(s)
       THEN IF Canonical(FoldShape(s)) THEN "key-case"
            ELSE IF \E i \in DOMAIN s.txs : "type" \notin Rng(FoldKeys(s.txs[i].ikeys))
            THEN "length-compensation"       \* a missing "type" masked by an extra member
            ELSE "noncanonical-accepted"
       ELSE IF ~obs.reenc \/ ~obs.ok2 THEN "roundtrip-reencode"
       ELSE IF obs.dec1 # Txs(s) THEN "decode-mismatch"
       ELSE IF obs.dec2 # obs.dec1 THEN "roundtrip-differs"
       ELSE "pass"
  ELSE IF MustAccept(s) THEN "canonical-rejected" ELSE "pass"

=============================================================================

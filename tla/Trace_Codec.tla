----------------------------- MODULE Trace_Codec -----------------------------
(***************************************************************************)
(* Validation of what the REAL code did (harness/cmd/c20) against          *)
(* Codec.tla.  Every observation line carries the abstract case; the       *)
(* expected verdict / value / decoded transactions are recomputed here     *)
(* from that abstract case - nothing written by the Go side is trusted as  *)
(* an expectation.                                                         *)
(*                                                                         *)
(*   obs_amt.ndjson    [id, tok, obs |-> [ok, v]]                          *)
(*   obs_batch.ndjson  [id, shape, obs |-> [ok, parse_ok, data_ok, reenc,  *)
(*                                          ok2, dec1, dec2]]              *)
(*                                                                         *)
(* The run prints one line  <<"C20FAIL", kind, id, class>>  per failing    *)
(* case and violates the invariant AllPass when there is one.              *)
(***************************************************************************)
EXTENDS Codec, Json

(* Named deviations of the real code from the specification (known         *)
(* findings).  Switching one on makes exactly its failure class tolerated; *)
(* every other disagreement is still reported.                             *)
(*   DevAmountWrap          a well formed amount whose exact value is      *)
(*                          >= 2^64 is accepted with some wrapped value    *)
(*   DevKeyCaseFold         a member name that differs from a known key    *)
(*                          only in letter case is taken for that key      *)
(*   DevLengthCompensation  an input object without "type" is accepted     *)
(*                          when another member has exactly the missing    *)
(*                          28 bytes (the decoded type is "invalid")       *)
CONSTANT Dev
ASSUME Dev \subseteq {"DevAmountWrap", "DevKeyCaseFold", "DevLengthCompensation"}

DevOf(class) ==
  CASE class = "amount-overflow"     -> "DevAmountWrap"
    [] class = "key-case"            -> "DevKeyCaseFold"
    [] class = "length-compensation" -> "DevLengthCompensation"
    [] OTHER -> "none"
Tolerate(class) == IF DevOf(class) \in Dev THEN "pass" ELSE class

TrA == ndJsonDeserialize("obs_amt.ndjson")
TrB == ndJsonDeserialize("obs_batch.ndjson")

(* well-formedness of the lines themselves: a malformed file is a failure, *)
(* never a pass                                                            *)
AmtLineOK(l) ==
  /\ \A i \in DOMAIN l.tok : l.tok[i] \in TokenSet
  /\ l.obs.ok \in BOOLEAN
  /\ IsDigits(l.obs.v)

AmtClass(l) == IF AmtLineOK(l) THEN Tolerate(AmountFailClass(l.tok, l.obs)) ELSE "malformed-line"

BatchClass(l) ==
  LET c == Tolerate(BatchFailClass(l.shape, l.obs))
  IN IF c # "pass" THEN c
     \* sanity of the recorded stages: accepted => parsed and data valid
     ELSE IF l.obs.ok /\ ~(l.obs.parse_ok /\ l.obs.data_ok) THEN "stage-mismatch"
     ELSE "pass"

BadA == {i \in DOMAIN TrA : AmtClass(TrA[i]) # "pass"}
BadB == {i \in DOMAIN TrB : BatchClass(TrB[i]) # "pass"}

Report ==
  /\ \A i \in BadA : PrintT(<<"C20FAIL", "amt", TrA[i].id, AmtClass(TrA[i])>>)
  /\ \A i \in BadB : PrintT(<<"C20FAIL", "batch", TrB[i].id, BatchClass(TrB[i])>>)
  /\ PrintT(<<"C20VALIDATED", Len(TrA), Len(TrB),
              Cardinality({i \in DOMAIN TrA : TrA[i].obs.ok}),
              Cardinality({i \in DOMAIN TrB : TrB[i].obs.ok}),
              Cardinality(BadA), Cardinality(BadB)>>)

ASSUME Report

VARIABLE done
Init == done = FALSE
Next == done' = TRUE
AllPass == done \in BOOLEAN /\ BadA = {} /\ BadB = {}
=============================================================================

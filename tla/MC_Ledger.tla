----------------------------- MODULE MC_Ledger -----------------------------
(***************************************************************************)
(* Exhaustive model of the ledger rules (LedgerBlock.tla) over plain       *)
(* integers and a small universe: every chain of Depth blocks whose        *)
(* content is drawn from a menu (rated / unrated with two rate tables,     *)
(* 0..2 entries from a menu of transfers, multi-transaction batches,       *)
(* admissible and forbidden conversions, an unauthorised entry; any entry  *)
(* may be repeated in later blocks).  Decides the design-level part of     *)
(* C03 C04 C05 C06 C07 C13 (and C12's "no rates => nothing executes").     *)
(***************************************************************************)
EXTENDS Integers, Sequences, FiniteSets, TLC

CONSTANTS Depth, PairSet
Pairs == IF PairSet = 0 THEN {<<3,1>>, <<1,1>>}
         ELSE IF PairSet = 1 THEN {<<1,1>>, <<1,2>>, <<3,1>>, <<3,3>>, <<6,1>>, <<4,5>>}
         ELSE {<<1,1>>, <<1,2>>, <<3,1>>, <<3,3>>, <<6,1>>, <<4,5>>, <<7,3>>, <<8,1>>}

MAddrs == {"a", "b", "BURN"}
MAssets == {"PEG", "pUSD", "pFCT", "pDCR"}
MAct(k) == CASE k = "OneWaySmall" -> 3 [] k = "V202" -> 3 [] k = "PIP10" -> 4 [] k = "RCDe" -> 0
             [] k \in {"V204", "V204Burn"} -> 1000 [] OTHER -> 0

INSTANCE LedgerBlock WITH
  NZero <- 0, NAdd <- LAMBDA a, b : a + b, NSub <- LAMBDA a, b : a - b, NLeq <- LAMBDA a, b : a <= b,
  NMul <- LAMBDA a, b : a * b, NDiv <- LAMBDA a, b : a \div b, NOfNat <- LAMBDA n : n,
  NFitsI64 <- LAMBDA a : a < 1000000, NFitsU64 <- LAMBDA a : a < 1000000,
  Addrs <- MAddrs, Assets <- MAssets, Act <- MAct, AvgPeriod <- 2, SnapRate <- 1000,
  StakeBank <- 10, BankBase <- 10, DevUnit <- 1, DevPct <- <<>>, DevAddr <- LAMBDA i : "a",
  MintAmt <- LAMBDA t : 0, Deviations <- {}

VARIABLES S, h, execs, lastInfo
vars == <<S, h, execs, lastInfo>>

Tx(a, t, amt, to) == [a |-> a, t |-> t, amt |-> amt, kind |-> "xfer", conv |-> "", to |-> to]
Cv(a, t, amt, c)  == [a |-> a, t |-> t, amt |-> amt, kind |-> "conv", conv |-> c, to |-> <<>>]
Out(a, amt) == [a |-> a, amt |-> amt]
Ent(id, auth, txs) == [id |-> id, hash |-> id, hrank |-> 0, first |-> id, signer |-> txs[1].a, key |-> "ed", auth |-> auth,
                       canon |-> TRUE, txs |-> txs, order |-> 0]

Menu == <<
  Ent("T1", "Valid", <<Tx("a", "pUSD", 2, <<Out("b", 2)>>)>>),
  Ent("T2", "Valid", <<Tx("a", "pUSD", 2, <<Out("b", 2)>>), Tx("a", "pUSD", 2, <<Out("BURN", 2)>>)>>),
  Ent("C1", "Valid", <<Cv("a", "PEG", 2, "pUSD")>>),
  Ent("C2", "Valid", <<Cv("a", "pUSD", 1, "pFCT")>>),
  Ent("C3", "Valid", <<Cv("b", "PEG", 1, "pDCR")>>),
  Ent("C4", "Valid", <<Cv("a", "PEG", 2, "pUSD"), Tx("a", "pUSD", 4, <<Out("b", 4)>>)>>),
  Ent("C5", "Valid", <<Cv("b", "pUSD", 2, "PEG")>>),
  Ent("U1", "badsig", <<Tx("a", "pUSD", 1, <<Out("b", 1)>>)>>),
  Ent("W1", "Valid", <<Tx("a", "pUSD", 1, <<Out("b", 2), Out("a", 1)>>)>>) >>      \* outputs exceed the input: no batch at all
MenuIdx == 1..Len(Menu)
EntrySeqs == {<<>>} \cup {<<Menu[i]>> : i \in MenuIdx} \cup {<<Menu[p[1]], Menu[p[2]]>> : p \in Pairs}

RateTables == { [PEG |-> 2, pUSD |-> 1, pFCT |-> 3, pDCR |-> 1], [PEG |-> 1, pUSD |-> 1, pFCT |-> 0, pDCR |-> 2] }
Grades == {[rated |-> FALSE, r |-> [t \in MAssets |-> 0]]} \cup {[rated |-> TRUE, r |-> r] : r \in RateTables}

NoGrade == [present |-> FALSE, ver |-> 0, gradeVer |-> 0, n |-> 0, winners |-> <<>>, gradedN |-> 0, rates |-> [t \in {} |-> 0], sprs |-> <<>>]
MkIn(hh, g, es) ==
  [h |-> hh,
   opr |-> IF g.rated THEN [NoGrade EXCEPT !.present = TRUE, !.gradeVer = 5, !.ver = 5, !.n = 25,
                                           !.winners = <<[a |-> "a", pay |-> 3, eh |-> ""]>>, !.gradedN = 1, !.rates = g.r]
           ELSE NoGrade,
   spr |-> NoGrade, entries |-> es, burns |-> <<>>]

SelfO == [self |-> TRUE, exec |-> EmptyFn, rows |-> EmptyFn, rated |-> FALSE, rates |-> [t \in MAssets |-> 0], bal |-> ZeroBal]

Init == /\ S = [InitState EXCEPT !.bal = [ZeroBal EXCEPT !["a"] = [PEG |-> 4, pUSD |-> 3, pFCT |-> 0, pDCR |-> 0],
                                                         !["b"] = [PEG |-> 1, pUSD |-> 2, pFCT |-> 0, pDCR |-> 0]]]
        /\ h = 0 /\ execs = [i \in {Menu[j].id : j \in MenuIdx} |-> 0]
        /\ lastInfo = [pre |-> ZeroBal, in |-> MkIn(0, CHOOSE g \in Grades : ~g.rated, <<>>), to |-> EmptyFn, init |-> TRUE]

Next == /\ h < Depth
        /\ \E g \in Grades, es \in EntrySeqs :
             LET in == MkIn(h + 1, g, es)
                 res == ApplyBlock(S, in, SelfO)
             IN  /\ S' = res.S
                 /\ execs' = [x \in DOMAIN execs |-> IF x \in DOMAIN res.info.to THEN execs[x] + 1 ELSE execs[x]]
                 /\ lastInfo' = [pre |-> S.bal, in |-> in, to |-> res.info.to, init |-> FALSE]
        /\ h' = h + 1
Spec == Init /\ [][Next]_vars

\* ------------------------------------------------------------------ properties
NoNegative == \A a \in MAddrs, t \in MAssets : S.bal[a][t] >= 0                                        \* C03
AtMostOnce == \A x \in DOMAIN execs : execs[x] <= 1                                                     \* C06
NoUnauthorized == "U1" \notin DOMAIN S.st /\ "U1" \notin S.rel                                          \* C05
FirstRatedAfter(x) == LET R == {r \in DOMAIN S.rates : r > S.st[x].h} IN
                      IF R = {} THEN 0 ELSE CHOOSE r \in R : \A q \in R : r <= q
ConvTiming == \A x \in DOMAIN S.st : HasConv(S.ent[x]) =>                                               \* C07 (C12)
                 /\ (S.st[x].exec > 0 => S.st[x].exec = FirstRatedAfter(x))
                 /\ (S.st[x].exec = 0 => FirstRatedAfter(x) = 0)
                 /\ (S.st[x].exec < 0 => FirstRatedAfter(x) # 0)
Forbidden(tx, e) == \/ tx.conv = "pFCT" \/ tx.conv = "PEG" \/ (e >= MAct("OneWaySmall") /\ tx.conv \in SmallCaps)
AdmissionOK == \A x \in DOMAIN S.st : S.st[x].exec > 0 =>                                                \* C13
                 \A i \in 1..Len(S.ent[x].txs) : S.ent[x].txs[i].kind = "conv" =>
                    /\ ~Forbidden(S.ent[x].txs[i], S.st[x].exec)
                    /\ S.rates[S.st[x].exec][S.ent[x].txs[i].t] # 0 /\ S.rates[S.st[x].exec][S.ent[x].txs[i].conv] # 0
ExecutedIffRel == \A x \in DOMAIN S.st : (S.st[x].exec > 0) <=> (x \in S.rel)                           \* C17
PendingIffHeld == \A x \in DOMAIN S.st : S.st[x].exec = 0 => \E k \in 1..Len(S.holding) : S.holding[k].hash = x

\* C04: per-asset supply delta of the last block = rewards + conversions in/out - burn outputs, exactly
ExpDelta(t) ==
  LET in == lastInfo.in
      X == DOMAIN lastInfo.to
      reward == IF t = "PEG" /\ in.opr.present THEN SumSet([i \in 1..Len(in.opr.winners) |-> in.opr.winners[i].pay], 1..Len(in.opr.winners)) ELSE 0
      perTx(e, i) == LET tx == e.txs[i] IN
                     IF tx.kind = "conv" THEN (IF tx.t = t THEN 0 - tx.amt ELSE 0) + (IF tx.conv = t THEN lastInfo.to[e.hash][i] ELSE 0)
                     ELSE IF tx.t = t THEN 0 - SumSet([j \in 1..Len(tx.to) |-> IF IsBurnOutput(tx.to[j].a, in.h) THEN tx.to[j].amt ELSE 0], 1..Len(tx.to))
                     ELSE 0
      perEntry(x) == SumSet([i \in 1..Len(S.ent[x].txs) |-> perTx(S.ent[x], i)], 1..Len(S.ent[x].txs))
      zeroing == IF in.h = MAct("V202") THEN lastInfo.pre["BURN"][t] ELSE 0      \* scheduled one-time adjustment
  IN  reward + SumSet([x \in X |-> perEntry(x)], X) - zeroing
SupplyOK == lastInfo.init \/ \A t \in MAssets : Supply(S.bal, t) - Supply(lastInfo.pre, t) = ExpDelta(t)
\* C07: a conversion never yields more USD value than was put in (at the spot rates of the executing block)
ValueOK == lastInfo.init \/ \A x \in DOMAIN lastInfo.to : \A i \in 1..Len(S.ent[x].txs) :
             LET tx == S.ent[x].txs[i] r == S.rates[lastInfo.in.h] IN
             tx.kind = "conv" => lastInfo.to[x][i] * r[tx.conv] <= tx.amt * r[tx.t]
=============================================================================

SPECIFICATION Spec
CONSTANTS Tip = 3  K = 3  MaxCrashes = 2  MaxFaults = 2  Deviations = {"DevCommitFailureFatal"}
INVARIANTS TypeOK DiskIsPrefix OnceInOrder MemNotBehind ResumeEq
PROPERTY Live

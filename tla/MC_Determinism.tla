--------------------------- MODULE MC_Determinism ---------------------------
(***************************************************************************)
(* C01: two replicas replay the same chain; every source of process-level  *)
(* nondeterminism in the implementation is an independent choice point:    *)
(*  - the order in which equal stakes come out of the (map fed, unstable)  *)
(*    sort that assigns the staking payout indices (node/sync.go           *)
(*    SnapshotPayouts); the dust of a capped payout goes to the tied top   *)
(*    staker with the lowest index;                                        *)
(*  - the iteration order of the payout map (credits commute);             *)
(* Invariant Agree: both replicas produce the same payout records and      *)
(* balances.  TieBreak = "address" is the design (order is a function of   *)
(* (stake, address)); TieBreak = "none" is the implementation as found.    *)
(***************************************************************************)
EXTENDS Integers, Sequences, FiniteSets, TLC
CONSTANTS Addrs, MaxStake, Bank, TieBreak

VARIABLES stakes, rec
vars == <<stakes, rec>>
Replicas == {1, 2}

Total(st) == LET RECURSIVE Sum(_) Sum(S) == IF S = {} THEN 0 ELSE LET x == CHOOSE y \in S : TRUE IN st[x] + Sum(S \ {x}) IN Sum(Addrs)
Stakers(st) == {a \in Addrs : st[a] > 0}
\* all index assignments the sort may produce: ascending by stake; ties in any order unless broken by address
Perms(S) == {f \in [1..Cardinality(S) -> S] : \A i, j \in 1..Cardinality(S) : i # j => f[i] # f[j]}
AddrLess(a, b) == \E i, j \in 1..Len(<<"a", "b", "c", "d">>) : <<"a", "b", "c", "d">>[i] = a /\ <<"a", "b", "c", "d">>[j] = b /\ i < j
Orders(st) == {f \in Perms(Stakers(st)) :
                 \A i, j \in DOMAIN f : i < j =>
                    \/ st[f[i]] < st[f[j]]
                    \/ (st[f[i]] = st[f[j]] /\ (TieBreak = "address" => AddrLess(f[i], f[j])))}
Payout(st, ord) ==
  LET tot == Total(st)
      n == Len(ord)
      base == [i \in 1..n |-> IF tot < Bank THEN st[ord[i]] ELSE (st[ord[i]] * Bank) \div tot]
      paid == LET RECURSIVE S(_) S(i) == IF i = 0 THEN 0 ELSE base[i] + S(i - 1) IN S(n)
      top == {i \in 1..n : \A j \in 1..n : st[ord[j]] <= st[ord[i]]}
      dustTo == IF tot < Bank \/ n = 0 THEN 0 ELSE CHOOSE i \in top : \A j \in top : i <= j
  IN  [i \in 1..n |-> [idx |-> i - 1, addr |-> ord[i], pay |-> base[i] + (IF i = dustTo THEN Bank - paid ELSE 0)]]

Init == stakes \in [Addrs -> 0..MaxStake] /\ rec = [r \in Replicas |-> <<>>]
Snapshot == /\ rec = [r \in Replicas |-> <<>>] /\ Stakers(stakes) # {}
            /\ \E o1, o2 \in Orders(stakes) : rec' = (1 :> Payout(stakes, o1)) @@ (2 :> Payout(stakes, o2))
            /\ UNCHANGED stakes
Next == Snapshot
Spec == Init /\ [][Next]_vars

\* same payout records (index, address, amount) on both replicas
Agree == rec[1] = rec[2]
\* the weaker statement about balances only
AgreeBalances == {<<rec[1][i].addr, rec[1][i].pay>> : i \in DOMAIN rec[1]} = {<<rec[2][i].addr, rec[2][i].pay>> : i \in DOMAIN rec[2]}
=============================================================================

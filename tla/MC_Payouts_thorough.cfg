SPECIFICATION Spec
CONSTANTS MaxBal = 2  MaxX = 1  Banks = {0, 1, 2, 5, 7}
INVARIANTS StakeIsMin Cap ExactWhenOver FullWhenUnder FloorShare AbsentUnpaid DustToTop LateFundsEarnNothing YieldLeqBank FullIfFits Proportional ExactBankWhenOver NeverMoreThanWanted RefundBound DevTotal
CHECK_DEADLOCK FALSE

--------------------------- MODULE MC_VersionLock ---------------------------
(* Model-checking harness for VersionLock: exhaustive invariants and the     *)
(* NDJSON export of the explored histories / fork tables (printed, one JSON  *)
(* document per line, prefix C19HIST / C19TABLE; the driver collects them).  *)
EXTENDS VersionLock, Json

\* export: one line per reachable history (run with SingleTable = TRUE, so that
\* the reachable states are exactly the histories)
ExportHist ==
    PrintT(<<"C19HIST", ToJson([hist |-> [i \in 1..Len(hist) |-> [v |-> hist[i].v, n |-> hist[i].n]],
                               by   |-> by])>>)

\* export: every fork table of the model (a constant-level set; in the full model
\* `forks` is chosen in Init and never changes, so the reachable states are exactly
\* the product histories x tables)
ExportTables ==
    \A t \in ForkTables : PrintT(<<"C19TABLE", ToJson(t)>>)

\* used as an INVARIANT of the export configuration (always TRUE, prints)
ExportAll == ExportHist /\ (hist = <<>> => ExportTables)
=============================================================================

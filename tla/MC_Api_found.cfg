SPECIFICATION Spec
CONSTANTS N = 4  P = 3  Locked = FALSE  PublishEarly = TRUE  MaxCalls = 2  Readers = {"r1", "r2"}
INVARIANTS LedgerUnaffected RespCommitted NoTornCache
CHECK_DEADLOCK FALSE

-------------------------------- MODULE Big --------------------------------
(***************************************************************************)
(* Arbitrary precision naturals for TLC (whose integers are 32-bit).       *)
(* A number is a sequence of limbs, base 10^4, least significant first,    *)
(* canonical: no most-significant zero limb; zero is <<>>.  Every product   *)
(* of two limbs plus carries stays below 2^31.                              *)
(* Used by the trace specifications so that the observed 64-bit amounts of  *)
(* the implementation are checked exactly; the exhaustive configurations    *)
(* instantiate the same specification with plain integers (NumNat).         *)
(***************************************************************************)
EXTENDS Integers, Sequences

B == 10000

BZero == <<>>
BIsZero(a) == a = <<>>

RECURSIVE BNorm(_)
BNorm(a) == IF a = <<>> THEN a
            ELSE IF a[Len(a)] = 0 THEN BNorm(SubSeq(a, 1, Len(a) - 1)) ELSE a

BLimb(a, i) == IF i <= Len(a) THEN a[i] ELSE 0
BMaxI(x, y) == IF x > y THEN x ELSE y

RECURSIVE BFromNatR(_, _)
BFromNatR(n, acc) == IF n = 0 THEN acc ELSE BFromNatR(n \div B, Append(acc, n % B))
BFromNat(n) == BFromNatR(n, <<>>)          \* n < 2^31

RECURSIVE BAddR(_, _, _, _, _)
BAddR(a, b, i, c, acc) ==
  IF i > BMaxI(Len(a), Len(b)) THEN (IF c = 0 THEN acc ELSE Append(acc, c))
  ELSE LET s == BLimb(a, i) + BLimb(b, i) + c
       IN  BAddR(a, b, i + 1, s \div B, Append(acc, s % B))
BAdd(a, b) == IF a = <<>> THEN b ELSE IF b = <<>> THEN a ELSE BAddR(a, b, 1, 0, <<>>)

\* comparison: -1, 0, 1
RECURSIVE BCmpR(_, _, _)
BCmpR(a, b, i) == IF i = 0 THEN 0
                  ELSE IF a[i] < b[i] THEN -1
                  ELSE IF a[i] > b[i] THEN 1
                  ELSE BCmpR(a, b, i - 1)
BCmp(a, b) == IF Len(a) < Len(b) THEN -1
              ELSE IF Len(a) > Len(b) THEN 1
              ELSE BCmpR(a, b, Len(a))
BLeq(a, b) == BCmp(a, b) <= 0
BLt(a, b)  == BCmp(a, b) < 0

\* a - b for a >= b (result of a < b is undefined: callers guard)
RECURSIVE BSubR(_, _, _, _, _)
BSubR(a, b, i, br, acc) ==
  IF i > Len(a) THEN BNorm(acc)
  ELSE LET d == a[i] - BLimb(b, i) - br
       IN  IF d < 0 THEN BSubR(a, b, i + 1, 1, Append(acc, d + B))
                    ELSE BSubR(a, b, i + 1, 0, Append(acc, d))
BSub(a, b) == IF b = <<>> THEN a ELSE BSubR(a, b, 1, 0, <<>>)

\* a * m for a limb-sized m (0 <= m < B)
RECURSIVE BMulSR(_, _, _, _, _)
BMulSR(a, m, i, c, acc) ==
  IF i > Len(a) THEN (IF c = 0 THEN acc ELSE Append(acc, c))
  ELSE LET p == a[i] * m + c
       IN  BMulSR(a, m, i + 1, p \div B, Append(acc, p % B))
BMulS(a, m) == IF m = 0 \/ a = <<>> THEN <<>> ELSE BMulSR(a, m, 1, 0, <<>>)

RECURSIVE BZeros(_)
BZeros(n) == IF n = 0 THEN <<>> ELSE <<0>> \o BZeros(n - 1)
BShift(a, n) == IF a = <<>> THEN a ELSE BZeros(n) \o a

RECURSIVE BMulR(_, _, _, _)
BMulR(a, b, i, acc) == IF i > Len(b) THEN acc
                       ELSE BMulR(a, b, i + 1, BAdd(acc, BShift(BMulS(a, b[i]), i - 1)))
BMul(a, b) == IF a = <<>> \/ b = <<>> THEN <<>> ELSE BMulR(a, b, 1, <<>>)

\* largest q in lo..hi with d*q <= r  (d > 0; invariant d*lo <= r)
RECURSIVE BDigit(_, _, _, _)
BDigit(r, d, lo, hi) ==
  IF lo = hi THEN lo
  ELSE LET mid == (lo + hi + 1) \div 2
       IN  IF BLeq(BMulS(d, mid), r) THEN BDigit(r, d, mid, hi) ELSE BDigit(r, d, lo, mid - 1)

\* long division, most significant limb first; returns [q, r]
RECURSIVE BDivR(_, _, _, _, _)
BDivR(a, d, i, rem, q) ==
  IF i = 0 THEN [q |-> BNorm(q), r |-> rem]
  ELSE LET r1  == BNorm(<<a[i]>> \o rem)
           dig == IF BLt(r1, d) THEN 0 ELSE BDigit(r1, d, 1, B - 1)
           r2  == IF dig = 0 THEN r1 ELSE BSub(r1, BMulS(d, dig))
       IN  BDivR(a, d, i - 1, r2, <<dig>> \o q)
BDivMod(a, d) == IF BLt(a, d) THEN [q |-> <<>>, r |-> a] ELSE BDivR(a, d, Len(a), <<>>, <<>>)
BDiv(a, d) == BDivMod(a, d).q

\* floor(a*b/c), c > 0
BMulDiv(a, b, c) == BDiv(BMul(a, b), c)

\* well-formedness of a number read from a trace
BIsNum(a) == /\ \A i \in 1..Len(a) : a[i] \in 0..(B - 1)
             /\ (a # <<>> => a[Len(a)] # 0)

B2p63 == <<5808, 5477, 368, 3372, 922>>          \* 9223372036854775808 = 2^63
B2p64 == <<1616, 955, 737, 6744, 1844>>         \* 18446744073709551616 = 2^64
=============================================================================

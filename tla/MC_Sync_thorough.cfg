SPECIFICATION Spec
CONSTANTS Tip = 4  K = 4  MaxCrashes = 3  MaxFaults = 3  Deviations = {}
INVARIANTS TypeOK DiskIsPrefix OnceInOrder MemNotBehind ResumeEq
PROPERTY Live

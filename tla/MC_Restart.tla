----------------------------- MODULE MC_Restart -----------------------------
(***************************************************************************)
(* C09 (restart independence) for the only consensus input pegnetd keeps   *)
(* in memory: the rolling-average cache of node/average.go.                *)
(* For EVERY pattern of rated / unrated heights of a chain of N blocks and *)
(* EVERY set of restart points, the window the sync loop prices with must  *)
(* be AvgWindow (Ledger.tla), i.e. a function of the recorded rates only.  *)
(*   Reload = "run"    : reload reproduces the uninterrupted state (repair) *)
(*   Reload = "height" : reload of the last P heights (implementation as    *)
(*                       found: deviation DevAvgWindowByCount)              *)
(***************************************************************************)
EXTENDS Integers, Sequences, FiniteSets, TLC
CONSTANTS N, P, Reload, MaxRestarts

VARIABLES rated, cache, c, restarts, out
vars == <<rated, cache, c, restarts, out>>

L == INSTANCE Ledger WITH
  NZero <- 0, NAdd <- LAMBDA a, b : a + b, NSub <- LAMBDA a, b : a - b, NLeq <- LAMBDA a, b : a <= b,
  NMul <- LAMBDA a, b : a * b, NDiv <- LAMBDA a, b : a \div b, NOfNat <- LAMBDA n : n,
  NFitsI64 <- LAMBDA a : TRUE, NFitsU64 <- LAMBDA a : TRUE,
  Addrs <- {"a"}, Assets <- {"PEG"}, Act <- LAMBDA k : 0, AvgPeriod <- P, SnapRate <- 1000,
  StakeBank <- 1, BankBase <- 1, DevUnit <- 1, DevPct <- <<>>, DevAddr <- LAMBDA i : "a",
  MintAmt <- LAMBDA t : 0, Deviations <- {}

\* the ledger state as far as the averages need it
SOf == [rates |-> [h \in {i \in 1..N : rated[i]} |-> [PEG |-> 1]]]
Lr(h) == L!LastRated(SOf, h)

\* what the cache holds after being asked for r
Compute(k, r) ==
  IF k.h = r THEN k
  ELSE IF k.h + 1 = r THEN L!CacheStep(SOf, k, r)
  ELSE IF Reload = "height" THEN L!CacheStep(SOf, k, r)
  ELSE [h |-> r, d |-> L!AvgWindow(SOf, r)]

Init == /\ rated \in [1..N -> BOOLEAN] /\ cache = L!EmptyCache /\ c = 0 /\ restarts = 0 /\ out = <<>>

\* the sync loop applies block c+1; if it is rated and rates exist before it, it asks for Lr(c+1)
Block == /\ c < N /\ c' = c + 1
         /\ IF rated[c + 1] /\ Lr(c + 1) > 0
              THEN /\ cache' = Compute(cache, Lr(c + 1))
                   /\ out' = Append(out, [r |-> Lr(c + 1), d |-> cache'.d])
              ELSE UNCHANGED <<cache, out>>
         /\ UNCHANGED <<rated, restarts>>
Restart == /\ restarts < MaxRestarts /\ c < N
           /\ cache' = L!EmptyCache /\ restarts' = restarts + 1
           /\ UNCHANGED <<rated, c, out>>
Next == Block \/ Restart
Spec == Init /\ [][Next]_vars

\* every window the sync loop used is the design's window, whatever the restart set
UsedWindowIsDesign == \A i \in 1..Len(out) : out[i].d = L!AvgWindow(SOf, out[i].r)
=============================================================================

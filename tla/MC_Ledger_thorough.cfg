SPECIFICATION Spec
CONSTANTS Depth = 4  PairSet = 2
INVARIANTS NoNegative AtMostOnce NoUnauthorized ConvTiming AdmissionOK ExecutedIffRel PendingIffHeld SupplyOK ValueOK

SPECIFICATION Spec
CONSTANTS Depth = 3  PairSet = 0
INVARIANTS NoNegative AtMostOnce NoUnauthorized ConvTiming AdmissionOK ExecutedIffRel PendingIffHeld SupplyOK ValueOK

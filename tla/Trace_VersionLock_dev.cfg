CONSTANTS
    Dev = TRUE
    Block = 500
INIT Init
NEXT Next
INVARIANT Accepted
CHECK_DEADLOCK FALSE

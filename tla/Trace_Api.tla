----------------------------- MODULE Trace_Api -----------------------------
(***************************************************************************)
(* Validates the C18 experiments run against the real daemon (vh api) with *)
(* the properties of Api.tla:                                              *)
(*   RespCommitted    - the height a reader saw was committed              *)
(*   LedgerUnaffected - the final ledger equals the run without readers    *)
(* A gate schedule that the implementation makes infeasible (the second    *)
(* goroutine blocks on the lock) is accepted as such.                      *)
(***************************************************************************)
EXTENDS Json, TLC, Integers, Sequences, FiniteSets
Tr == TLCEval(ndJsonDeserialize("trace.ndjson"))
VARIABLES l, bad
Init == l = 1 /\ bad = {}
Check(e) ==
  (IF e.schedule \in {"sync-status-before-commit", "sync-status-after-failed-commit"} /\ e.feasible /\ e.seen > e.committed
     THEN {<<l, "C18", "a reader saw a synced height that was not committed", e.seen, e.committed>>} ELSE {})
  \cup (IF e.schedule = "load" /\ e.seen > 0
     THEN {<<l, "C18", "under load get-sync-status reported a height above the committed height", e.seen, 0>>} ELSE {})
  \cup (IF ~e.equal THEN {<<l, "C18", "the ledger computed while API requests were served differs from the ledger without them: " \o e.schedule, 0, 0>>} ELSE {})
Next == /\ l <= Len(Tr)
        /\ bad' = IF Tr[l].ev = "ApiExp" THEN bad \cup Check(Tr[l]) ELSE bad
        /\ l' = l + 1
Spec == Init /\ [][Next]_<<l, bad>>
Done == l = Len(Tr) + 1 => /\ PrintT(<<"DONE", Len(Tr), Cardinality(bad)>>)
                           /\ \A b \in bad : PrintT("ISSUE " \o ToJson(<<b[1], b[2], b[3], b[4], b[5]>>))
=============================================================================

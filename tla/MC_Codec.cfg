\* quick tier
CONSTANTS
  StrMax = 5
  KAll = 2
  KSem = 3
  SemDims = {"second", "tkeys", "iaddr", "itype", "iamt", "trs", "conv"}
  BigMenu = FALSE
INIT Init
NEXT Next
INVARIANT AmtInv
INVARIANT BatchInv
CHECK_DEADLOCK FALSE

----------------------------- MODULE MC_Payouts -----------------------------
(***************************************************************************)
(* Exhaustive check (small integers) of the payout kernels of Ledger.tla / *)
(* LedgerBlock.tla that MC_Ledger does not exercise:                       *)
(*  C14  StakeOf / StakePayouts : snapshot minimum, cap, floor shares, dust *)
(*  C16  PegYields / Refund     : bank limit, proportional yield, refund    *)
(*  C15  DevAmount              : developer table                           *)
(* Every combination of the enumerated inputs is an initial state; the      *)
(* properties are state invariants.                                         *)
(***************************************************************************)
EXTENDS Integers, Sequences, FiniteSets, TLC
CONSTANTS MaxBal, MaxX, Banks

MAddrs == {"a", "b", "c"}
MAssets == {"PEG", "pUSD", "pX"}
INSTANCE LedgerBlock WITH
  NZero <- 0, NAdd <- LAMBDA x, y : x + y, NSub <- LAMBDA x, y : x - y, NLeq <- LAMBDA x, y : x <= y,
  NMul <- LAMBDA x, y : x * y, NDiv <- LAMBDA x, y : x \div y, NOfNat <- LAMBDA n : n,
  NFitsI64 <- LAMBDA x : TRUE, NFitsU64 <- LAMBDA x : TRUE,
  Addrs <- MAddrs, Assets <- MAssets, Act <- LAMBDA k : 0, AvgPeriod <- 2, SnapRate <- 144,
  StakeBank <- 5, BankBase <- 5, DevUnit <- 20, DevPct <- <<10, 19, 9, 9, 8, 8, 8, 8, 5, 5, 3, 3, 2, 3>>, DevAddr <- LAMBDA i : "a",
  MintAmt <- LAMBDA t : 0, Deviations <- {}

VARIABLES past, cur, rates, wants, bank
vars == <<past, cur, rates, wants, bank>>

RateTables == {[PEG |-> 2, pUSD |-> 1, pX |-> 3], [PEG |-> 1, pUSD |-> 2, pX |-> 0]}
\* two independent families of initial states (the kernels do not interact)
ZeroB == [a \in MAddrs |-> [t \in {"pUSD", "pX"} |-> 0]]
BalSet == {b \in [{"pUSD", "pX"} -> 0..MaxBal] : b["pX"] <= MaxX}
InitStake == /\ past \in [MAddrs -> BalSet]
             /\ cur \in [MAddrs -> BalSet]
             /\ rates \in RateTables
             /\ wants = [i \in 1..3 |-> 0] /\ bank = 5
InitBank == /\ past = ZeroB /\ cur = ZeroB
            /\ rates \in RateTables
            /\ wants \in [1..3 -> 0..4]
            /\ bank \in Banks
Init == InitStake \/ InitBank
Next == UNCHANGED vars
Spec == Init /\ [][Next]_vars

Full(b) == [a \in MAddrs |-> [t \in MAssets |-> IF t = "PEG" THEN 7 ELSE b[a][t]]]       \* PEG holdings never count
St == Stakes(Full(past), Full(cur), rates, 10)
SP == StakePayouts(St)
SumF(f, S) == SumSet(f, S)
Paid == SumF(SP.base, MAddrs) + SP.dust
Total == SumF(St, MAddrs)

\* C14
StakeIsMin == \A a \in MAddrs : St[a] = SumSet([t \in {"pUSD", "pX"} |->
                 IF rates[t] = 0 \/ rates["pUSD"] = 0 THEN 0
                 ELSE ((IF past[a][t] < cur[a][t] THEN past[a][t] ELSE cur[a][t]) * rates[t]) \div rates["pUSD"]], {"pUSD", "pX"})
Cap == Paid <= 5
ExactWhenOver == Total >= 5 => Paid = 5
FullWhenUnder == Total < 5 => \A a \in MAddrs : SP.base[a] = St[a] /\ SP.dust = 0
FloorShare == Total >= 5 => \A a \in MAddrs : SP.base[a] = (St[a] * 5) \div Total
AbsentUnpaid == \A a \in MAddrs : St[a] = 0 => SP.base[a] = 0 /\ a \notin SP.top
DustToTop == SP.dust > 0 => SP.top # {} /\ \A a \in SP.top : \A b \in MAddrs : St[b] <= St[a]
LateFundsEarnNothing == \A a \in MAddrs : (\A t \in {"pUSD", "pX"} : past[a][t] = 0) => St[a] = 0

\* C16
Reqs == [i \in 1..3 |-> [hash |-> "h", hrank |-> i, idx |-> 0, a |-> "a", t |-> "pUSD", amt |-> 0, dst |-> "PEG", want |-> wants[i]]]
Y == PegYields(Reqs, bank)
D == PegDustIdx(Reqs, Y)
Yield(i) == IF i = D THEN Y.base[i] + Y.dust ELSE Y.base[i]
YieldLeqBank == SumSet([i \in 1..3 |-> Yield(i)], 1..3) <= (IF Y.total < bank THEN Y.total ELSE bank)
FullIfFits == Y.total < bank => \A i \in 1..3 : Yield(i) = wants[i]
Proportional == Y.total >= bank /\ Y.total > 0 => \A i \in 1..3 : Y.base[i] = (wants[i] * bank) \div Y.total
ExactBankWhenOver == Y.total >= bank /\ Y.total > 0 => SumSet([i \in 1..3 |-> Yield(i)], 1..3) = bank
NeverMoreThanWanted == \A i \in 1..3 : i # D => Yield(i) <= wants[i]
\* refund bound: yield + refund never exceeds the value of the input (spot rates)
RefundBound == \A amt \in 0..6 : \A y \in 0..6 :
                 LET q == [a |-> "a", t |-> "pUSD", amt |-> amt, dst |-> "PEG"]
                     mx == (amt * rates["pUSD"]) \div rates["PEG"]
                 IN  y <= mx => (y * rates["PEG"] + Refund(5, q, y, rates) * rates["pUSD"] <= amt * rates["pUSD"])

\* C15: the developer table adds up to exactly 2,000 PEG (x 144 from 2.0.2) in units of DevUnit
DevTotal == SumSet([i \in 1..14 |-> DevAmount(i, 10)], 1..14) = 20 * 100 * 144
=============================================================================

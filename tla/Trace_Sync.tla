----------------------------- MODULE Trace_Sync -----------------------------
(***************************************************************************)
(* Validates crash / fault experiments run against the real daemon         *)
(* (vh crash) as behaviours of Sync.tla.  Every experiment line            *)
(*   CrashExp(h, k, K, after, synced, matches, syncverOK, resumed, equal)  *)
(* is replayed with the specification's own actions:                       *)
(*   reset to RefDisk(h-1); BeginTx; StmtMany; (Bump; InsertSynced;        *)
(*   Commit); Crash; Restart                                               *)
(* and the database found after the SIGKILL must be the specification's    *)
(* disk (synced, content = reference state of that height, version rows);  *)
(* then the run is resumed to the tip (BeginTx .. Commit per block) and    *)
(* the final database must equal the reference.  All invariants of Sync    *)
(* are evaluated in every state on the way.                                *)
(* FaultExp lines (one failed statement, C10) are replayed with            *)
(* FailInBlock / FailInsertSynced / FailCommit instead of Crash.           *)
(***************************************************************************)
EXTENDS Json, TLC, Integers, Sequences, FiniteSets

Tr == TLCEval(ndJsonDeserialize("trace.ndjson"))
TTip == Tr[1].tip

CONSTANT TDeviations
VARIABLES disk, txn, mem, pc, crashes, faults, l, ph, bad
S == INSTANCE Sync WITH Tip <- TTip, K <- 2, MaxCrashes <- 1000000, MaxFaults <- 1000000, Deviations <- TDeviations

tvars == <<disk, txn, mem, pc, crashes, faults, l, ph, bad>>
E == Tr[l]
IsExp == l <= Len(Tr) /\ E.ev \in {"CrashExp", "FaultExp"}
\* abstract position of the real event index k (0 = before BEGIN, K-1 = the COMMIT event):
\* the specification's K = 2 write units stand for "first half / second half" of the statements.
Units(e) == IF e.k <= 1 THEN 0 ELSE IF e.k >= e.K - 1 THEN 2 ELSE 1

Init == /\ S!Init /\ l = 2 /\ ph = "reset" /\ bad = {}

Skip == /\ l <= Len(Tr) /\ ~IsExp /\ l' = l + 1 /\ UNCHANGED <<disk, txn, mem, pc, crashes, faults, ph, bad>>

Reset == /\ IsExp /\ ph = "reset"
         /\ disk' = S!RefDisk(E.h - 1) /\ txn' = S!NoTxn /\ mem' = E.h - 1 /\ pc' = "idle"
         /\ crashes' = 0 /\ faults' = 0
         /\ ph' = (IF E.k = 0 /\ ~E.after THEN "hit" ELSE "begin")
         /\ UNCHANGED <<l, bad>>

Begin == /\ IsExp /\ ph = "begin" /\ S!BeginTx
         /\ ph' = (IF Units(E) = 0 /\ ~E.after THEN "hit" ELSE "stmts")
         /\ UNCHANGED <<l, bad>>

Stmts == /\ IsExp /\ ph = "stmts"
         /\ S!StmtMany(IF E.after THEN 2 ELSE Units(E))
         /\ ph' = (IF E.after \/ Units(E) = 2 THEN "bump" ELSE "hit")
         /\ UNCHANGED <<l, bad>>

BumpStep == /\ IsExp /\ ph = "bump" /\ S!Bump /\ ph' = "ins" /\ UNCHANGED <<l, bad>>
InsStep  == /\ IsExp /\ ph = "ins" /\ S!InsertSynced /\ ph' = (IF E.after THEN "commit" ELSE "hit") /\ UNCHANGED <<l, bad>>
CommitStep == /\ IsExp /\ ph = "commit" /\ S!Commit /\ ph' = "hit" /\ UNCHANGED <<l, bad>>

\* the crash / the fault itself
Hit == /\ IsExp /\ ph = "hit"
       /\ IF E.ev = "CrashExp" THEN S!Crash
          ELSE IF pc = "intx" THEN S!FailInBlock
          ELSE IF pc = "ready" THEN S!FailCommit
          ELSE IF pc = "bumped" THEN S!FailInsertSynced
          ELSE UNCHANGED <<disk, txn, mem, pc, crashes, faults>>     \* failure of BEGIN itself: nothing started
       /\ ph' = "observe" /\ UNCHANGED <<l, bad>>

\* what the fresh process found on disk after the kill must be the specification's disk
Observe == /\ IsExp /\ ph = "observe"
           /\ IF pc = "down" THEN S!Restart ELSE UNCHANGED <<disk, txn, mem, pc, crashes, faults>>
           /\ bad' = bad \cup
                (IF E.ev = "CrashExp" /\ ~(E.synced = disk.synced /\ E.matches = disk.synced /\ E.syncverOK /\ E.killed)
                   THEN {<<l, "C02", "database after SIGKILL is not exactly the blocks up to the recorded height", E.h, E.k>>} ELSE {})
                \cup
                \* a process that survives the fault goes on with the height it holds in memory (mem): the specification's
                \* FailInBlock / FailInsertSynced / FailCommit leave mem = disk.synced, so the next blocks it commits are
                \* disk.synced+1, +2 in order; the database it leaves behind must be exactly those whole blocks
                (IF E.ev = "FaultExp" /\ "contOK" \in DOMAIN E /\ ~E.contOK
                   THEN {<<l, "C10", "the process that met the fault went on with a wrong height / left part of a block behind (database after two more blocks is not a whole-block prefix)", E.h, E.k>>} ELSE {})
           /\ ph' = "resume" /\ UNCHANGED l

\* resume to the tip with the specification's actions, one block per step
ResumeBlock == /\ IsExp /\ ph = "resume" /\ disk.synced < TTip
               /\ disk' = S!RefDisk(disk.synced + 1) /\ mem' = disk.synced + 1
               /\ UNCHANGED <<txn, pc, crashes, faults, l, ph, bad>>

Finish == /\ IsExp /\ ph = "resume" /\ disk.synced = TTip
          /\ bad' = bad \cup
               (IF ~(E.resumed /\ E.equal /\ E.syncverOKAtTip)
                  THEN {<<l, IF E.ev = "CrashExp" THEN "C02" ELSE "C10",
                          "after recovery the ledger at the tip differs from the uninterrupted run", E.h, E.k>>} ELSE {})
          /\ l' = l + 1 /\ ph' = "reset"
          /\ UNCHANGED <<disk, txn, mem, pc, crashes, faults>>

Next == Skip \/ Reset \/ Begin \/ Stmts \/ BumpStep \/ InsStep \/ CommitStep \/ Hit \/ Observe \/ ResumeBlock \/ Finish
Spec == Init /\ [][Next]_tvars

\* invariants of the specification, evaluated in every state of every replayed experiment
DiskIsPrefix == S!DiskIsPrefix
OnceInOrder  == S!OnceInOrder
MemNotBehind == S!MemNotBehind
Done == l = Len(Tr) + 1 => /\ PrintT(<<"DONE", Len(Tr), Cardinality(bad)>>)
                           /\ \A b \in bad : PrintT("ISSUE " \o ToJson(<<b[1], b[2], b[3], b[4], b[5]>>))
=============================================================================

--------------------------- MODULE Trace_Config ---------------------------
(* Compares the configuration the daemon is built with (vh consts, one JSON line) with Config.tla. *)
EXTENDS Config, Json, TLC, FiniteSets
Tr == TLCEval(ndJsonDeserialize("trace.ndjson"))
C == Tr[1]
VARIABLE done
Issues ==
  {<<ActOwner[k], "activation height differs from the main-net table", k, C.act[k], MainnetAct[k]>> : k \in {x \in DOMAIN MainnetAct : C.act[x] # MainnetAct[x]}}
  \cup {<<PegOwner[k], "PEG per block differs", k, C.pegPerBlock[k], PegPerBlock[k]>> : k \in {x \in DOMAIN PegPerBlock : C.pegPerBlock[x] # PegPerBlock[x]}}
  \cup (IF C.snapshotRate # SnapshotRate THEN {<<"C14", "snapshot cadence differs", "snapshotRate", C.snapshotRate, SnapshotRate>>,
                                                <<"C15", "payout cadence differs", "snapshotRate", C.snapshotRate, SnapshotRate>>} ELSE {})
  \cup (IF C.avgPeriod # AvgPeriod \/ C.avgRequired # AvgRequired
          THEN {<<"C07", "averaging period differs", "avgPeriod", C.avgPeriod, AvgPeriod>>, <<"C13", "averaging period differs", "avgRequired", C.avgRequired, AvgRequired>>} ELSE {})
  \cup (IF Len(C.devs) # Len(DevPct) \/ \E i \in 1..Len(DevPct) : i <= Len(C.devs) /\ (C.devs[i].pct # DevPct[i] \/ C.devs[i].a # DevAddr[i])
          THEN {<<"C15", "developer table differs", "devs", 0, 0>>} ELSE {})
  \cup (IF DOMAIN C.mint # DOMAIN MintSupply \/ \E t \in DOMAIN MintSupply \cap DOMAIN C.mint : C.mint[t] # MintSupply[t]
          THEN {<<"C15", "2.0.4 supply table differs", "mint", 0, 0>>} ELSE {})
  \cup (IF C.burn # BurnAddr \/ C.oldBurn # OldBurnAddr \/ C.fctBurn # FctBurnAddr
          THEN {<<"C04", "burn address differs", "burn", 0, 0>>, <<"C15", "burn address differs", "burn", 0, 0>>} ELSE {})
  \cup (IF C.mintAddr # MintAddr THEN {<<"C15", "mint address differs", "mintAddr", 0, 0>>} ELSE {})
  \cup (IF C.tickers # Tickers THEN {<<"C20", "number of tickers differs", "tickers", C.tickers, Tickers>>} ELSE {})
  \cup (IF C.syncVersion # SyncVersion \/ Len(C.forks) # Len(Forks) \/ \E i \in 1..Len(Forks) : i <= Len(C.forks) /\ (C.forks[i].h # Forks[i].h \/ C.forks[i].min # Forks[i].min)
          THEN {<<"C19", "hard-fork table / sync version differs", "forks", 0, 0>>} ELSE {})
Init == done = FALSE
Next == ~done /\ done' = TRUE
Spec == Init /\ [][Next]_done
Report == done => /\ \A x \in Issues : PrintT("ISSUE " \o ToJson(<<x[1], x[2], x[3], ToString(x[4]), ToString(x[5])>>))
                  /\ PrintT(<<"DONE", 1, Cardinality(Issues)>>)
=============================================================================

SPECIFICATION Spec
CONSTANTS Addrs = {"a","b","c","d"} MaxStake = 3 Bank = 7 TieBreak = "address"
INVARIANTS Agree AgreeBalances
CHECK_DEADLOCK FALSE

------------------------------- MODULE Ledger -------------------------------
(***************************************************************************)
(* The PegNet ledger rules as pure operators: what one Factom block does   *)
(* to the ledger (ApplyBlock), written once against an abstract numeric    *)
(* interface.  It is instantiated with plain integers for exhaustive model *)
(* checking (MC_Ledger) and with the limb arithmetic of Big.tla for        *)
(* validating traces of the implementation at full 64-bit scale            *)
(* (Trace_Ledger).                                                         *)
(*                                                                         *)
(* The module states the INTENDED design (DESIGN.md appendix D).  Places   *)
(* where the implementation is known to differ are switched by the set     *)
(* Deviations (empty by default).                                          *)
(***************************************************************************)
EXTENDS Integers, Sequences, FiniteSets, TLC

CONSTANTS
  NZero, NAdd(_, _), NSub(_, _), NLeq(_, _), NMul(_, _), NDiv(_, _), NOfNat(_),
  NFitsI64(_), NFitsU64(_),
  Addrs,            \* set of address names
  Assets,           \* set of asset names (pTicker strings); "PEG", "pUSD", "pFCT" have special roles
  Act(_),           \* activation height by name
  AvgPeriod,        \* averaging window P
  SnapRate,         \* 144
  StakeBank,        \* 4500e8 * 144
  BankBase,         \* 5000e8
  DevUnit,          \* 2000e8 / 100
  DevPct,           \* sequence of percentages of the developer table (naturals)
  DevAddr(_),       \* i -> address name of developer i
  MintAmt(_),       \* asset -> minted amount (Num), zero if not minted
  Deviations        \* set of named deviations switched on

\* ------------------------------------------------------------------ numbers
NIsZero(a) == a = NZero
NLt(a, b)  == NLeq(a, b) /\ a # b
NMin(a, b) == IF NLeq(a, b) THEN a ELSE b
NMax(a, b) == IF NLeq(a, b) THEN b ELSE a
NMulDiv(a, b, c) == NDiv(NMul(a, b), c)      \* multiply first, then floor-divide

RECURSIVE SumSeq(_, _)
SumSeq(s, i) == IF i > Len(s) THEN NZero ELSE NAdd(s[i], SumSeq(s, i + 1))

\* sum of f[x] over a finite set, in a fixed (CHOOSE) order
RECURSIVE SumSet(_, _)
SumSet(f, S) == IF S = {} THEN NZero
                ELSE LET x == CHOOSE y \in S : TRUE IN NAdd(f[x], SumSet(f, S \ {x}))

\* ------------------------------------------------------------------ eras
SmallCaps == {"PEG", "pDCR", "pDGB", "pDOGE", "pHBAR", "pONT", "pRVN", "pBAT", "pALGO", "pBIF",
              "pETB", "pKES", "pNGN", "pRWF", "pTZS", "pUGX"}

IsSnapshot(h) == h >= Act("V20") /\ h % SnapRate = 0 /\ h >= Act("TxConv")

\* grader versions the protocol prescribes at a height (C11/C12: the oracle must have used them)
OPRGraderVersion(h) == IF h >= Act("V20") THEN 5 ELSE IF h >= Act("V4") THEN 4
                       ELSE IF h >= Act("PEGFloat") THEN 3 ELSE IF h >= Act("GradingV2") THEN 2 ELSE 1
SPRGraderVersion(h) == IF h >= Act("V202") THEN 7 ELSE IF h >= Act("SprSig") THEN 6 ELSE 5

\* ------------------------------------------------------------------ conversion kernel (C07)
Ok(v)   == [ok |-> TRUE, v |-> v]
Err(c)  == [ok |-> FALSE, c |-> c]

Convert(h, amt, fr, fa, tr, ta) ==
  IF NIsZero(fr) \/ NIsZero(tr) THEN Err("zero-rate")
  ELSE IF h >= Act("PIP10") /\ (NIsZero(fa) \/ NIsZero(ta)) THEN Err("zero-average")
  ELSE LET src == IF h >= Act("PIP10") THEN NMin(fr, fa) ELSE fr
           dst == IF h >= Act("PIP10") THEN NMax(tr, ta) ELSE tr
           q   == NMulDiv(amt, src, dst)
       IN  IF NFitsI64(q) THEN Ok(q) ELSE Err("overflow")

\* ------------------------------------------------------------------ state
\* S = [bal, rates, holding, rel, st, bank, snapCur, snapPast]
\*   bal      : [Addrs -> [Assets -> Num]]
\*   rates    : function from rated heights to [Assets -> Num]
\*   holding  : sequence of [id, h]         (rows are never deleted)
\*   rel      : set of entry ids that have relation rows (executed)
\*   st       : function id -> [h |-> arrival height, exec |-> status, to |-> sequence of converted amounts]
\*   bank     : function height -> [amt, used, req]
\*   snapCur, snapPast : [Addrs -> [Assets -> Num]]

ZeroBal == [a \in Addrs |-> [t \in Assets |-> NZero]]
EmptyFn == [x \in {} |-> 0]
InitState == [bal |-> ZeroBal, rates |-> EmptyFn, holding |-> <<>>, rel |-> {}, st |-> EmptyFn, ent |-> EmptyFn,
              cache |-> [h |-> 0, d |-> <<>>],
              bank |-> EmptyFn, snapCur |-> ZeroBal, snapPast |-> ZeroBal]

Bal(S, a, t) == IF a \in Addrs /\ t \in Assets THEN S.bal[a][t] ELSE NZero
Credit(bal, a, t, v) == IF a \in Addrs /\ t \in Assets THEN [bal EXCEPT ![a][t] = NAdd(@, v)] ELSE bal
Debit(bal, a, t, v)  == IF a \in Addrs /\ t \in Assets THEN [bal EXCEPT ![a][t] = NSub(@, v)] ELSE bal
Supply(bal, t) == SumSet([a \in Addrs |-> bal[a][t]], Addrs)

Rated(S, h) == h \in DOMAIN S.rates
\* greatest rated height below h (0 if none)
LastRated(S, h) == LET R == {i \in DOMAIN S.rates : i < h} IN
                   IF R = {} THEN 0 ELSE CHOOSE i \in R : \A j \in R : j <= i

Rate(r, t) == IF t \in DOMAIN r THEN r[t] ELSE NZero

\* ------------------------------------------------------------------ averages (PIP-10)
\* The averaging window for the rates of height r is a function of the recorded rates ONLY (C09):
\* it is what a node that has been running without interruption holds, namely the last P rated
\* heights of [g - P + 1, r], where [g, r] is the maximal run of consecutively rated heights ending
\* at r (when that run is at least P long this is simply [r - P + 1, r]).
AvgLo(r) == IF r - AvgPeriod + 1 < 1 THEN 1 ELSE r - AvgPeriod + 1
AvgHeights(S, r) == {i \in DOMAIN S.rates : i >= AvgLo(r) /\ i <= r}          \* window by height
RunStart(S, r) == LET G == {g \in 1..r : \A i \in g..r : Rated(S, i)} IN
                  IF G = {} THEN r ELSE CHOOSE g \in G : \A x \in G : g <= x
RECURSIVE LastN(_, _)
LastN(d, n) == IF Len(d) > n THEN LastN(Tail(d), n) ELSE d
RECURSIVE SortedSeq(_)
SortedSeq(H) == IF H = {} THEN <<>> ELSE LET m == CHOOSE x \in H : \A y \in H : x <= y IN <<m>> \o SortedSeq(H \ {m})
AvgWindow(S, r) ==
  LET g == RunStart(S, r)
      lo == IF g - AvgPeriod + 1 < 1 THEN 1 ELSE g - AvgPeriod + 1
  IN  IF r - g + 1 >= AvgPeriod THEN [i \in 1..AvgPeriod |-> r - AvgPeriod + i]
      ELSE LastN(SortedSeq({i \in DOMAIN S.rates : i >= lo /\ i <= r}), AvgPeriod)
\* average over a sequence of rated heights d: zero-valued rates and missing heights count as missing;
\* fewer than P/2 usable values => 0 (conversions of that asset are refused)
AvgOver(S, d, t) ==
  LET n == Len(d)
      I == 1..n
      zeros == Cardinality({i \in I : NIsZero(Rate(S.rates[d[i]], t))})
      missing == zeros + (IF n < AvgPeriod THEN AvgPeriod - n ELSE 0)
  IN  IF n = 0 \/ AvgPeriod - missing < AvgPeriod \div 2 THEN NZero
      ELSE NDiv(SumSet([i \in I |-> Rate(S.rates[d[i]], t)], I), NOfNat(n))
Averages(S, r) == LET d == AvgWindow(S, r) IN [t \in Assets |-> AvgOver(S, d, t)]

\* The averages cache as the implementation (before the repair) maintains it (node/average.go): asked for height r,
\*   same height      -> unchanged
\*   next height      -> drop from the front until fewer than P entries remain, append r (trim by COUNT)
\*   anything else    -> reload the rated heights of [r-P+1, r]            (window by HEIGHT)
\* An uninterrupted run of this equals AvgWindow; after a restart (cache empty) the reload by height
\* differs when the window contains unrated blocks (deviation DevAvgWindowByCount, C09).
RECURSIVE TrimTo(_, _)
TrimTo(d, n) == IF Len(d) >= n /\ Len(d) > 0 THEN TrimTo(Tail(d), n) ELSE d
EmptyCache == [h |-> 0, d |-> <<>>]
CacheStep(S, c, r) ==
  IF c.h = r THEN c
  ELSE IF c.h + 1 = r THEN [h |-> r, d |-> IF Rated(S, r) THEN Append(TrimTo(c.d, AvgPeriod), r) ELSE TrimTo(c.d, AvgPeriod)]
  ELSE [h |-> r, d |-> SortedSeq(AvgHeights(S, r))]
AveragesFromCache(S, c) == [t \in Assets |-> AvgOver(S, c.d, t)]

\* ------------------------------------------------------------------ authorisation (C05)
\* (deviation DevRcdeRecoveryByte: the implementation ignores the recovery byte of an RCD-e signature,
\*  which is nevertheless part of the entry hash, so an altered copy passes as a new valid entry)
Authorized(e, h) == /\ e.canon
                    /\ (e.auth = "Valid" \/ (e.auth = "RecoveryByteAltered" /\ "DevRcdeRecoveryByte" \in Deviations))
                    /\ (e.key = "rcde" => h > Act("RCDe"))

HasConv(e)    == \E i \in 1..Len(e.txs) : e.txs[i].kind = "conv"
HasPegConv(e) == \E i \in 1..Len(e.txs) : e.txs[i].kind = "conv" /\ e.txs[i].conv = "PEG"

\* ------------------------------------------------------------------ batch application (C03, C13)
\* Pass 1 of applyTransactionBatch, transaction by transaction: funds then admission rules.
\* Returns 0 (fine) or the reject code, or -9 for "unconvertible" (Convert error).
RECURSIVE Pass1(_, _, _, _, _, _)
Pass1(bal, e, h, rates, avgs, i) ==
  IF i > Len(e.txs) THEN 0
  ELSE LET tx == e.txs[i] IN
       IF ~NLeq(tx.amt, IF tx.a \in Addrs /\ tx.t \in Assets THEN bal[tx.a][tx.t] ELSE NZero) THEN -1
       ELSE IF tx.kind = "conv" THEN
              IF NIsZero(Rate(rates, tx.t)) \/ NIsZero(Rate(rates, tx.conv)) THEN -4
              ELSE IF h >= Act("OneWaypFCT") /\ tx.conv = "pFCT" THEN -3
              ELSE IF h >= Act("OneWaySmall") /\ tx.conv \in SmallCaps THEN -5
              ELSE IF ~Convert(h, tx.amt, Rate(rates, tx.t), Rate(avgs, tx.t), Rate(rates, tx.conv), Rate(avgs, tx.conv)).ok THEN -9
              ELSE Pass1(bal, e, h, rates, avgs, i + 1)
            ELSE Pass1(bal, e, h, rates, avgs, i + 1)

\* Pass 2: cumulative simulation on the input address (credits of earlier transactions count).
\* tmp is [Assets -> Num] for the batch's single input address.
RECURSIVE Pass2(_, _, _, _, _, _)
Pass2(tmp, e, h, rates, avgs, i) ==
  IF i > Len(e.txs) THEN TRUE
  ELSE LET tx == e.txs[i] IN
       IF ~NLeq(tx.amt, tmp[tx.t]) THEN FALSE
       ELSE LET t1 == [tmp EXCEPT ![tx.t] = NSub(@, tx.amt)]
                t2 == IF tx.kind = "conv"
                      THEN [t1 EXCEPT ![tx.conv] = NAdd(@, Convert(h, tx.amt, Rate(rates, tx.t), Rate(avgs, tx.t), Rate(rates, tx.conv), Rate(avgs, tx.conv)).v)]
                      ELSE LET back == {j \in 1..Len(tx.to) : tx.to[j].a = tx.a}
                           IN  [t1 EXCEPT ![tx.t] = NAdd(@, SumSet([j \in back |-> tx.to[j].amt], back))]
            IN  Pass2(t2, e, h, rates, avgs, i + 1)

\* FAT-2 transaction validity (fat2.Transaction.Validate): a transfer names at least one output and its outputs add up to
\* exactly the input amount -- over the naturals, not modulo 2^64; a conversion changes the asset.  An entry with an
\* ill-formed transaction is no batch at all: it is ignored like any other non-canonical content.
OutSum(tx) == SumSet([j \in 1..Len(tx.to) |-> tx.to[j].amt], 1..Len(tx.to))
WellFormedTx(tx) == /\ NFitsI64(tx.amt)            \* TransactionBatch.Validate: "input value exceeded int64"
                    /\ IF tx.kind = "conv" THEN tx.conv # tx.t
                       ELSE Len(tx.to) >= 1 /\ NLeq(OutSum(tx), tx.amt) /\ NLeq(tx.amt, OutSum(tx))
WellFormed(e) == \A i \in 1..Len(e.txs) : WellFormedTx(e.txs[i])
OutputsExceedInput(e) == \E i \in 1..Len(e.txs) : e.txs[i].kind = "xfer" /\ ~NLeq(OutSum(e.txs[i]), e.txs[i].amt)

InUniverse(e) == \A i \in 1..Len(e.txs) : /\ e.txs[i].a \in Addrs /\ e.txs[i].t \in Assets
                                          /\ (e.txs[i].kind = "conv" => e.txs[i].conv \in Assets)
                                          /\ \A j \in 1..Len(e.txs[i].to) : e.txs[i].to[j].a \in Addrs

\* Verdict for executing batch e against balances bal at height h:
\*   h (executed), or -1 -3 -4 -5, or -9 (unconvertible amount)
BatchVerdict(bal, e, h, rates, avgs) ==
  LET p1 == Pass1(bal, e, h, rates, avgs, 1) IN
  IF p1 # 0 THEN p1
  ELSE IF ~Pass2(bal[e.txs[1].a], e, h, rates, avgs, 1) THEN -1
  ELSE h

\* Burn address of transfers (outputs to it are destroyed): the old burn address (the all-zero address) before
\* 2.0.2, the global burn address from 2.0.2 on.
IsBurnOutput(a, h) == \/ (h >= Act("V202") /\ a = "BURN")
                      \/ (h < Act("V202") /\ a = "OLDBURN")

\* Effects of an executed batch on the balances, and the converted amounts it records.
\* PEG requests of the legacy bank era are debited here and credited by the bank stage.
DeferredPeg(tx, h) == tx.kind = "conv" /\ tx.conv = "PEG" /\ h >= Act("ConvLimit") /\ h < Act("V20")

RECURSIVE CreditOuts(_, _, _, _, _)
CreditOuts(bal, tx, h, j, dummy) ==
  IF j > Len(tx.to) THEN bal
  ELSE CreditOuts(IF IsBurnOutput(tx.to[j].a, h) THEN bal ELSE Credit(bal, tx.to[j].a, tx.t, tx.to[j].amt),
                  tx, h, j + 1, dummy)

RECURSIVE ExecBatch(_, _, _, _, _, _, _)
ExecBatch(bal, to, e, h, rates, avgs, i) ==
  IF i > Len(e.txs) THEN [bal |-> bal, to |-> to]
  ELSE LET tx == e.txs[i]
           b1 == Debit(bal, tx.a, tx.t, tx.amt)
       IN  IF tx.kind = "conv" THEN
             LET c == Convert(h, tx.amt, Rate(rates, tx.t), Rate(avgs, tx.t), Rate(rates, tx.conv), Rate(avgs, tx.conv))
                 v == IF c.ok THEN c.v ELSE NZero
             IN  IF DeferredPeg(tx, h)
                 THEN ExecBatch(b1, Append(to, NZero), e, h, rates, avgs, i + 1)
                 ELSE ExecBatch(Credit(b1, tx.a, tx.conv, v), Append(to, v), e, h, rates, avgs, i + 1)
           ELSE ExecBatch(CreditOuts(b1, tx, h, 1, 0), Append(to, NZero), e, h, rates, avgs, i + 1)

\* ------------------------------------------------------------------ rates (C12)
\* band test over rationals: |opr - spr| <= spr * num / den
InBand(o, s, num, den) ==
  /\ NLeq(NMul(s, NOfNat(den - num)), NMul(o, NOfNat(den)))
  /\ NLeq(NMul(o, NOfNat(den)), NMul(s, NOfNat(den + num)))

PegEquationPrice(S, r) ==
  LET others == Assets \ {"PEG"}
      cap == SumSet([t \in others |-> NMul(Supply(S.bal, t), Rate(r, t))], others)
      peg == Supply(S.bal, "PEG")
  IN  IF NIsZero(peg) THEN NZero ELSE NDiv(cap, peg)

\* SPR eligibility: declared staker must hold one of the 100 largest positive PEG balances at the
\* committed state, and (intended design) must be the signer of the record.
PegRank(S, a) == Cardinality({b \in Addrs : NLt(S.bal[a]["PEG"], S.bal[b]["PEG"])})
TopHolder(S, a) == a \in Addrs /\ ~NIsZero(S.bal[a]["PEG"]) /\ PegRank(S, a) < 100
SprEligible(S, x, h) ==
  /\ x.valid
  /\ TopHolder(S, x.staker)
  /\ (h >= Act("SprSig") /\ "DevSprIdUnbound" \notin Deviations => x.signer = x.staker)

\* indices of the winning staking records: the first 25 eligible ones with distinct coinbase
\* addresses, in block order (all records of a block carry the same rates in generated scenarios,
\* so the banded grade is 0 for all and the stable sort keeps block order); empty if fewer than 25.
RECURSIVE SprPick(_, _, _, _, _, _)
SprPick(S, xs, h, i, seen, acc) ==
  IF i > Len(xs) \/ Len(acc) = 50 THEN acc
  ELSE IF SprEligible(S, xs[i], h) /\ xs[i].coinbase \notin seen
       THEN SprPick(S, xs, h, i + 1, seen \cup {xs[i].coinbase}, Append(acc, i))
       ELSE SprPick(S, xs, h, i + 1, seen, acc)
SprWinnerIdx(S, in) ==
  IF ~in.spr.present \/ in.h < Act("V20") THEN <<>>
  ELSE LET p == SprPick(S, in.spr.sprs, in.h, 1, {}, <<>>) IN
       IF Len(p) < 25 THEN <<>> ELSE SubSeq(p, 1, 25)

SprPayout == NMul(NOfNat(180), NOfNat(100000000))

\* Result: [rated, r] where r : [Assets -> Num]
RatesOf(S, in) ==
  LET h == in.h
      oprW == in.opr.present /\ Len(in.opr.winners) > 0
      sprW == Len(SprWinnerIdx(S, in)) > 0
      orr == in.opr.rates
      srr == in.spr.rates
      none == [rated |-> FALSE, r |-> [t \in Assets |-> NZero]]
  IN
  IF h < Act("V20") THEN
     IF ~oprW THEN none
     ELSE LET base == [t \in Assets |-> Rate(orr, t)]
              peg == IF h < Act("PEGPricing") THEN NZero
                     ELSE IF h < Act("PEGFloat") THEN PegEquationPrice(S, base)
                     ELSE Rate(orr, "PEG")
          IN  [rated |-> TRUE, r |-> [base EXCEPT !["PEG"] = peg]]
  ELSE IF ~oprW /\ ~sprW THEN none
  ELSE IF oprW /\ ~sprW THEN [rated |-> TRUE, r |-> [t \in Assets |-> Rate(orr, t)]]
  ELSE IF ~oprW /\ sprW THEN [rated |-> TRUE, r |-> [t \in Assets |-> Rate(srr, t)]]
  ELSE IF h < Act("DevRewards") THEN
         IF \A t \in Assets : IF NLeq(NOfNat(100000), Rate(srr, t))
                              THEN InBand(Rate(orr, t), Rate(srr, t), 1, 1000)
                              ELSE InBand(Rate(orr, t), Rate(srr, t), 1, 100)
         THEN [rated |-> TRUE, r |-> [t \in Assets |-> Rate(orr, t)]] ELSE none
  ELSE IF h < Act("V202") THEN
         IF \A t \in Assets : InBand(Rate(orr, t), Rate(srr, t), 10, 100)
         THEN [rated |-> TRUE, r |-> [t \in Assets |-> Rate(orr, t)]] ELSE none
  ELSE [rated |-> TRUE,
        r |-> [t \in Assets |-> IF InBand(Rate(orr, t), Rate(srr, t), 25, 100) THEN Rate(orr, t) ELSE NZero]]

\* ------------------------------------------------------------------ scheduled one-time events (C15)
ZeroAddress(bal, a) == IF a \in Addrs THEN [bal EXCEPT ![a] = [t \in Assets |-> NZero]] ELSE bal
NullifyBurn(bal, h) ==
  LET b1 == IF h = Act("DevRewards") THEN ZeroAddress(bal, IF h < Act("V202") THEN "OLDBURN" ELSE "BURN") ELSE bal
  IN  IF h = Act("V202") THEN ZeroAddress(b1, "BURN") ELSE b1
MintStage(bal, h) ==
  LET b1 == IF h = Act("V204") /\ "MINT" \in Addrs
            THEN [bal EXCEPT !["MINT"] = [t \in Assets |-> NAdd(bal["MINT"][t], MintAmt(t))]] ELSE bal
  IN  IF h = Act("V204Burn") /\ "MINT" \in Addrs
      THEN [b1 EXCEPT !["MINT"] = [t \in Assets |-> IF NIsZero(MintAmt(t)) THEN b1["MINT"][t] ELSE NZero]] ELSE b1

DevPayoutDue(h) == h >= Act("DevRewards") /\ h % SnapRate = 0
DevAmount(i, h) == NMul(DevUnit, NOfNat(IF h >= Act("V202") THEN DevPct[i] * SnapRate ELSE DevPct[i]))
RECURSIVE DevStage(_, _, _)
DevStage(bal, h, i) == IF i > Len(DevPct) THEN bal ELSE DevStage(Credit(bal, DevAddr(i), "PEG", DevAmount(i, h)), h, i + 1)

\* ------------------------------------------------------------------ holder staking (C14)
StakeOf(minb, r, h) ==
  LET ts == {t \in Assets \ {"PEG"} : ~NIsZero(minb[t]) /\ ~NIsZero(Rate(r, t)) /\ ~NIsZero(Rate(r, "pUSD"))}
  IN  SumSet([t \in ts |-> NMulDiv(minb[t], Rate(r, t), Rate(r, "pUSD"))], ts)
MinBal(p, c) == [t \in Assets |-> NMin(p[t], c[t])]
Stakes(past, cur, r, h) == [a \in Addrs |-> StakeOf(MinBal(past[a], cur[a]), r, h)]

\* base payouts (floor shares, or the stake itself when the total is below the bank) and the dust
StakePayouts(stakes) ==
  LET stakers == {a \in Addrs : ~NIsZero(stakes[a])}
      total == SumSet(stakes, stakers)
      full == NLt(total, StakeBank)
      base == [a \in Addrs |-> IF a \notin stakers THEN NZero
                               ELSE IF full THEN stakes[a] ELSE NMulDiv(stakes[a], StakeBank, total)]
      paid == SumSet(base, stakers)
      top == {a \in stakers : \A b \in stakers : NLeq(stakes[b], stakes[a])}
  IN  [stakers |-> stakers, base |-> base,
       dust |-> IF full \/ stakers = {} THEN NZero ELSE NSub(StakeBank, paid), top |-> top]

\* rates used by the snapshot payout at h, or "skip"
SnapshotRates(S, h, ratedNow) ==
  IF ratedNow THEN [ok |-> TRUE, r |-> S.rates[h]]
  ELSE IF h >= Act("V202") THEN
         (IF LastRated(S, h) = 0 THEN [ok |-> FALSE] ELSE [ok |-> TRUE, r |-> S.rates[LastRated(S, h)]])
  ELSE (IF Rated(S, h - 1) THEN [ok |-> TRUE, r |-> S.rates[h - 1]] ELSE [ok |-> FALSE])

=============================================================================
